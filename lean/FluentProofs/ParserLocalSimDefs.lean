import FluentProofs.ParserLocalBarEntry
import FluentProofs.ParserLocalPreLoop
/-!
# Locality of the parser, SIMULATION family (C04, Junk kept by the serializer): shared definitions

Two sources `s₁`, `s₂` that agree on `[0, N]`, where `N` is a line start that holds, in each of them, the end of
input, a `#` or an entry head (`Bar`).  Every parser function started at `p ≤ N` with the same arguments and the same
fuel does the same on both — same outcome, cursor `≤ N` — or, on both, ends up behind `N` (inside the entry head,
`Bar` case only).  `SimR N r₁ r₂` is that relation on outcomes.  The files:

* `ParserLocalSimDefs` (this file) — `TailB`, `Sim`, `CurLe`, `Past`, `SimR`, `CurGe`;
* `ParserLocalSimGe` — one-source cursor monotonicity (`GSpecs`: no function reports a cursor before its start);
* `ParserLocalSimLeaf`, `ParserLocalSimLeaf2` — the leaf scanners agree below `N`;
* `ParserLocalSimExprAux`, `ParserLocalSimExpr`, `ParserLocalSimExpr2` — the joint induction over the eight mutually
  recursive functions (`SSpecs`, `sspecs_all`);
* `ParserLocalSimEntry`, `ParserLocalSimEntry2` — attributes, messages, terms, `get_entry`, junk recovery
  (`junk_sim`, `attr_sim`);
* `ParserLocalSimTop` — the statements for two sources that hold the common bytes at different offsets
  (`junk_transfer`, `attr_transfer`).
-/
namespace FluentProofs.Parser
open FluentModel.Syntax

/-! ## what stands at `N` -/

/-- at `N`: a `#` or an entry head -/
def TailB (s : Src) (N : Nat) : Prop := s[N]? = some 35 ∨ ∃ E, Bar s N E

/-- at `N` stands a `#` (a comment: no parser function started before it gets past it) -/
def Hash (s : Src) (N : Nat) : Prop := s[N]? = some 35

/-- a byte that can stand at `N`: a letter, `-` or `#` -/
def wallByte (b : UInt8) : Bool := isReal b || b == 35

/-- `s₁` and `s₂` agree on `[0, N]`; `N > 0` is the position behind a line feed; at `N` each source has a `#` or an
entry head (the case "end of input in both" needs no simulation: the two sources are then equal) -/
structure Sim (N : Nat) (s₁ s₂ : Src) : Prop where
  get : ∀ i, i ≤ N → s₂[i]? = s₁[i]?
  pos : 0 < N
  nl : s₁[N - 1]? = some 10
  t₁ : TailB s₁ N
  t₂ : TailB s₂ N

/-! ## outcomes -/

/-- the cursor of an `ok` / `err` outcome is `≤ N` (`panic` and `fuel`: no condition) -/
def CurLe {α : Type} (N : Nat) : R α → Prop
  | .ok _ q => q ≤ N
  | .err _ q => q ≤ N
  | .panic _ => True
  | .fuel => True

/-- the cursor of an `ok` / `err` outcome is `> N` (`panic` and `fuel`: no condition) -/
def Past {α : Type} (N : Nat) : R α → Prop
  | .ok _ q => N < q
  | .err _ q => N < q
  | .panic _ => True
  | .fuel => True

/-- the cursor of an `ok` / `err` outcome is `≥ p` (`panic` and `fuel`: no condition) -/
def CurGe {α : Type} (p : Nat) : R α → Prop
  | .ok _ q => p ≤ q
  | .err _ q => p ≤ q
  | .panic _ => True
  | .fuel => True

/-- the same outcome with a cursor `≤ N`, or — only when `N` does not hold a `#` (`¬ H`) — both outcomes behind `N` -/
def SimR {α : Type} (N : Nat) (H : Prop) (r₁ r₂ : R α) : Prop := (CurLe N r₁ ∧ r₂ = r₁) ∨ (¬ H ∧ Past N r₁ ∧ Past N r₂)

section
variable {α β : Type} {N : Nat} {H : Prop}

@[simp] theorem curLe_ok (a : α) (q : Nat) : CurLe N (.ok a q : R α) ↔ q ≤ N := Iff.rfl
@[simp] theorem curLe_err (e : PErr) (q : Nat) : CurLe N (.err e q : R α) ↔ q ≤ N := Iff.rfl
@[simp] theorem curLe_panic (m : String) : CurLe N (.panic m : R α) ↔ True := Iff.rfl
@[simp] theorem curLe_fuel : CurLe N (.fuel : R α) ↔ True := Iff.rfl
@[simp] theorem past_ok (a : α) (q : Nat) : Past N (.ok a q : R α) ↔ N < q := Iff.rfl
@[simp] theorem past_err (e : PErr) (q : Nat) : Past N (.err e q : R α) ↔ N < q := Iff.rfl
@[simp] theorem past_panic (m : String) : Past N (.panic m : R α) ↔ True := Iff.rfl
@[simp] theorem past_fuel : Past N (.fuel : R α) ↔ True := Iff.rfl
@[simp] theorem curGe_ok (p : Nat) (a : α) (q : Nat) : CurGe p (.ok a q : R α) ↔ p ≤ q := Iff.rfl
@[simp] theorem curGe_err (p : Nat) (e : PErr) (q : Nat) : CurGe p (.err e q : R α) ↔ p ≤ q := Iff.rfl
@[simp] theorem curGe_panic (p : Nat) (m : String) : CurGe p (.panic m : R α) ↔ True := Iff.rfl
@[simp] theorem curGe_fuel (p : Nat) : CurGe p (.fuel : R α) ↔ True := Iff.rfl

theorem curLe_or_past (r : R α) : CurLe N r ∨ Past N r := by
  cases r with
  | ok a q => by_cases h : q ≤ N
              · exact Or.inl h
              · exact Or.inr (by simp only [past_ok]; omega)
  | err e q => by_cases h : q ≤ N
               · exact Or.inl h
               · exact Or.inr (by simp only [past_err]; omega)
  | panic m => exact Or.inl trivial
  | fuel => exact Or.inl trivial

/-- equal outcomes with a cursor `≤ N` are related -/
theorem SimR.of_eq {r₁ r₂ : R α} (h : r₂ = r₁) (hle : CurLe N r₁) : SimR N H r₁ r₂ := Or.inl ⟨hle, h⟩

/-- both outcomes behind `N` (possible only without a `#` at `N`) -/
theorem SimR.of_past {r₁ r₂ : R α} (hH : ¬ H) (h1 : Past N r₁) (h2 : Past N r₂) : SimR N H r₁ r₂ := Or.inr ⟨hH, h1, h2⟩

/-- an outcome is related to itself when its cursor is `≤ N` or there is no `#` at `N` -/
theorem SimR.refl_of (r : R α) (h : CurLe N r ∨ ¬ H) : SimR N H r r := by
  rcases curLe_or_past (N := N) r with h1 | h1
  · exact Or.inl ⟨h1, rfl⟩
  · rcases h with h | h
    · exact Or.inl ⟨h, rfl⟩
    · exact Or.inr ⟨h, h1, h1⟩

theorem CurGe.past {p : Nat} {r : R α} (h : CurGe p r) (hp : N < p) : Past N r := by
  cases r <;> simp only [curGe_ok, curGe_err, past_ok, past_err, past_panic, past_fuel] at h ⊢ <;> omega

theorem CurGe.weaken {p p' : Nat} {r : R α} (h : CurGe p r) (hp : p' ≤ p) : CurGe p' r := by
  cases r <;> simp only [curGe_ok, curGe_err, curGe_panic, curGe_fuel] at h ⊢ <;> omega

theorem CurGe.cases {p : Nat} {r : R α} (h : CurGe p r) :
    (∃ a q, r = .ok a q ∧ p ≤ q) ∨ (∃ e q, r = .err e q ∧ p ≤ q) ∨ (∃ m, r = .panic m) ∨ r = .fuel := by
  cases r with
  | ok a q => exact Or.inl ⟨a, q, rfl, h⟩
  | err e q => exact Or.inr (Or.inl ⟨e, q, rfl, h⟩)
  | panic m => exact Or.inr (Or.inr (Or.inl ⟨m, rfl⟩))
  | fuel => exact Or.inr (Or.inr (Or.inr rfl))

theorem Past.cases {r : R α} (h : Past N r) :
    (∃ a q, r = .ok a q ∧ N < q) ∨ (∃ e q, r = .err e q ∧ N < q) ∨ (∃ m, r = .panic m) ∨ r = .fuel := by
  cases r with
  | ok a q => exact Or.inl ⟨a, q, rfl, h⟩
  | err e q => exact Or.inr (Or.inl ⟨e, q, rfl, h⟩)
  | panic m => exact Or.inr (Or.inr (Or.inl ⟨m, rfl⟩))
  | fuel => exact Or.inr (Or.inr (Or.inr rfl))

/-- the outcome with its value mapped (what most callers do with the result of their last call) -/
def mapR (f : α → β) : R α → R β
  | .ok a q => .ok (f a) q
  | .err e q => .err e q
  | .panic m => .panic m
  | .fuel => .fuel

theorem Past.mapR {f : α → β} {r : R α} (h : Past N r) : Past N (mapR f r) := by cases r <;> exact h
theorem CurLe.mapR {f : α → β} {r : R α} (h : CurLe N r) : CurLe N (mapR f r) := by cases r <;> exact h
theorem CurGe.mapR {p : Nat} {f : α → β} {r : R α} (h : CurGe p r) : CurGe p (mapR f r) := by cases r <;> exact h

theorem SimR.mapR {f : α → β} {r₁ r₂ : R α} (h : SimR N H r₁ r₂) : SimR N H (mapR f r₁) (mapR f r₂) := by
  rcases h with ⟨h1, h2⟩ | ⟨hH, h1, h2⟩
  · exact Or.inl ⟨h1.mapR, by rw [h2]⟩
  · exact Or.inr ⟨hH, h1.mapR, h2.mapR⟩

end

/-- closes `Past` / `CurLe` / `CurGe` goals on constructor outcomes -/
macro "cur_close" : tactic =>
  `(tactic| first
    | trivial
    | (simp only [↓reduceIte, Bool.false_eq_true, past_ok, past_err, past_panic, past_fuel, curLe_ok, curLe_err,
        curLe_panic, curLe_fuel, curGe_ok, curGe_err, curGe_panic, curGe_fuel]; omega)
    | omega)

/-! ## byte facts of `Sim` -/

theorem wallByte_of_isReal {b : UInt8} (h : isReal b = true) : wallByte b = true := by simp [wallByte, h]

theorem TailB.wall {s : Src} {N : Nat} (h : TailB s N) : ∃ b, s[N]? = some b ∧ wallByte b = true := by
  rcases h with h | ⟨E, hb⟩
  · exact ⟨35, h, by decide⟩
  · obtain ⟨b, h1, h2⟩ := hb.real
    exact ⟨b, h1, wallByte_of_isReal h2⟩

/-- without a `#` at `N` there is an entry head -/
theorem TailB.bar {s : Src} {N : Nat} (h : TailB s N) (hH : ¬ Hash s N) : ∃ E, Bar s N E := by
  rcases h with h | h
  · exact absurd h hH
  · exact h

namespace Sim
variable {N : Nat} {s₁ s₂ : Src}

theorem symm (h : Sim N s₁ s₂) : Sim N s₂ s₁ :=
  ⟨fun i hi => (h.get i hi).symm, h.pos, by rw [h.get _ (by have := h.pos; omega)]; exact h.nl, h.t₂, h.t₁⟩

theorem nl₂ (h : Sim N s₁ s₂) : s₂[N - 1]? = some 10 := h.symm.nl

theorem wall₁ (h : Sim N s₁ s₂) : ∃ b, s₁[N]? = some b ∧ wallByte b = true := h.t₁.wall
theorem wall₂ (h : Sim N s₁ s₂) : ∃ b, s₂[N]? = some b ∧ wallByte b = true := h.t₂.wall

theorem lt₁ (h : Sim N s₁ s₂) {p : Nat} (hp : p ≤ N) : p < s₁.size := by
  obtain ⟨b, hb, _⟩ := h.wall₁; have := get_lt hb; omega
theorem lt₂ (h : Sim N s₁ s₂) {p : Nat} (hp : p ≤ N) : p < s₂.size := by
  obtain ⟨b, hb, _⟩ := h.wall₂; have := get_lt hb; omega

theorem hash_iff (h : Sim N s₁ s₂) : Hash s₂ N ↔ Hash s₁ N := by
  unfold Hash; rw [h.get N (Nat.le_refl _)]

theorem ls₁ (h : Sim N s₁ s₂) : LS s₁ N := Or.inr h.nl
theorem ls₂ (h : Sim N s₁ s₂) : LS s₂ N := Or.inr h.nl₂

/-- a byte other than `\n` below `N` is not the last one below `N` -/
theorem succ_lt (h : Sim N s₁ s₂) {p : Nat} {b : UInt8} (hp : p < N) (hb : s₁[p]? = some b) (hne : b ≠ 10) : p + 1 < N := by
  by_cases he : p + 1 = N
  · have h10 := h.nl
    rw [show N - 1 = p by omega, hb] at h10
    cases h10; exact absurd rfl hne
  · omega

/-- the byte at `N` is none of the bytes the parser acts on in the middle of an entry -/
theorem ne_N₁ (h : Sim N s₁ s₂) {c : UInt8} (hc : wallByte c = false) : s₁[N]? ≠ some c := by
  intro hn
  obtain ⟨b, hb, hw⟩ := h.wall₁
  rw [hb] at hn; cases hn; rw [hw] at hc; cases hc

theorem ne_N₂ (h : Sim N s₁ s₂) {c : UInt8} (hc : wallByte c = false) : s₂[N]? ≠ some c := h.symm.ne_N₁ hc

/-- a position `≤ N` that holds a byte which cannot stand at `N` is `< N` -/
theorem lt_of_byte (h : Sim N s₁ s₂) {p : Nat} {c : UInt8} (hp : p ≤ N) (hb : s₁[p]? = some c) (hc : wallByte c = false) :
    p < N := by
  by_cases he : p = N
  · subst he; exact absurd hb (h.ne_N₁ hc)
  · omega

theorem cur (h : Sim N s₁ s₂) {p : Nat} (hp : p ≤ N) (c : UInt8) : isCurrentByte s₂ p c = isCurrentByte s₁ p c := by
  unfold isCurrentByte; rw [h.get p hp]

end Sim

end FluentProofs.Parser
