import FluentProofs.ParserLocalSimExpr2
import FluentProofs.ParserLocalShiftEntry
/-!
# Locality of the parser, SIMULATION family, part 5: attributes, messages, terms, `get_entry`, junk recovery

Under `Sim N s₁ s₂`, with the `&str` invariant on both sources and a fuel `F` that suffices for both:
`get_attribute`, `get_attributes`, `get_message`, `get_term` started before `N` are related by `SimR`; a failing
`get_entry` on `s₁` fails on `s₂`, and junk recovery ends at the same position (`junk_sim`).
-/
namespace FluentProofs.Parser
open FluentModel.Syntax

/-! ## more fuel does not change a finished run (the shift lemmas at distance `0`) -/

theorem shift_zero (s : Src) : Shift 0 s s :=
  ⟨fun _ => rfl, rfl, bnd_zero s, Or.inl rfl⟩

/-- an outcome is `ok` or `err` -/
def Fin {α : Type} (r : R α) : Prop := (∃ a q, r = .ok a q) ∨ (∃ e q, r = .err e q)

theorem Fin.of_good {α : Type} {s : Src} {lo : Nat} {r : R α} {Q : α → Nat → Prop} (h : Good s lo r Q) : Fin r := by
  rcases h.cases with ⟨a, q, hr, _⟩ | ⟨e, q, hr, _⟩
  · exact Or.inl ⟨a, q, hr⟩
  · exact Or.inr ⟨e, q, hr⟩

theorem Fin.shR {α β : Type} {f : α → β} {d : Nat} {r : R α} (h : Fin r) : Fin (shR f d r) := by
  rcases h with ⟨a, q, rfl⟩ | ⟨e, q, rfl⟩
  · exact Or.inl ⟨_, _, rfl⟩
  · exact Or.inr ⟨_, _, rfl⟩

theorem Fin.ne_fuel {α : Type} {r : R α} (h : Fin r) : r ≠ .fuel := by
  rcases h with ⟨a, q, rfl⟩ | ⟨e, q, rfl⟩ <;> nofun

/-- `get_attribute` with any fuel `≥ exprFuel s` ends in `ok` or `err` -/
theorem getAttribute_fin {s : Src} (hs : AsciiThenBoundary s) {F : Nat} (hF : exprFuel s ≤ F) {p : Nat} (hp : p ≤ s.size) :
    Fin (getAttribute s F p) := by
  have hg := Fin.of_good (getAttribute_good hs p hp)
  have := getAttribute_shift (shift_zero s) rfl hg.ne_fuel hF
  rw [Nat.add_zero] at this
  rw [this]; exact hg.shR

section
variable {N : Nat} {s₁ s₂ : Src}

/-! ## attributes -/

theorem getAttribute_simR (h : Sim N s₁ s₂) (F : Nat) {p : Nat} (hp : p < N) :
    SimR N (Hash s₁ N) (getAttribute s₁ F p) (getAttribute s₂ F p) := by
  unfold getAttribute
  obtain ⟨e1, _, e2⟩ := getIdentifier_sim h hp
  rw [e1]
  cases hid : getIdentifier s₁ p with
  | ok id q =>
    obtain ⟨hq, _⟩ := e2 id q hid
    simp only []
    rw [skipBlankInline_sim h (Nat.le_of_lt hq)]
    have hq1 := h.skipBlankInline_lt hq
    rw [expectByte_sim h (Nat.le_of_lt hq1)]
    cases hx : expectByte s₁ (skipBlankInline s₁ q) 61 with
    | ok u q2 =>
      obtain ⟨rfl, _, hq2⟩ := h.expectByte_ok_lt (Nat.le_of_lt hq1) (b := 61) (by decide) hx
      have hq2 := hq2 (by decide)
      simp only []
      rcases (sspecs_all h F).pattern _ hq2 with ⟨hle, heq⟩ | ⟨hH, hp1, hp2⟩
      · rw [heq]
        cases hpat : getPattern s₁ F (skipBlankInline s₁ q + 1) with
        | ok o q3 =>
          rw [hpat] at hle
          cases o with
          | none => exact SimR.of_eq rfl hle
          | some pat => exact SimR.of_eq rfl hle
        | err e q3 => rw [hpat] at hle; exact SimR.of_eq rfl hle
        | panic m => exact SimR.of_eq rfl trivial
        | fuel => exact SimR.of_eq rfl trivial
      · refine SimR.of_past hH ?_ ?_
        · revert hp1
          cases getPattern s₁ F (skipBlankInline s₁ q + 1) with
          | ok o q3 => intro hp1; cases o <;> exact hp1
          | err e q3 => exact fun hx => hx
          | panic m => exact fun hx => hx
          | fuel => exact fun hx => hx
        · revert hp2
          cases getPattern s₂ F (skipBlankInline s₁ q + 1) with
          | ok o q3 => intro hp2; cases o <;> exact hp2
          | err e q3 => exact fun hx => hx
          | panic m => exact fun hx => hx
          | fuel => exact fun hx => hx
    | err e q2 =>
      have : q2 = skipBlankInline s₁ q := by
        rcases expectByte_cases s₁ (skipBlankInline s₁ q) 61 with ⟨hx', _⟩ | ⟨hx', _⟩ <;> rw [hx'] at hx <;> cases hx
        rfl
      exact SimR.of_eq rfl (by simp only [curLe_err]; omega)
    | panic m => exact SimR.of_eq rfl trivial
    | fuel => exact SimR.of_eq rfl trivial
  | err e q =>
    have hle : CurLe N (getIdentifier s₁ p) := (getIdentifier_sim h hp).2.1
    rw [hid] at hle
    exact SimR.of_eq rfl hle
  | panic m => exact SimR.of_eq rfl trivial
  | fuel => exact SimR.of_eq rfl trivial

/-- a result that is `ok`/`err`, behind `N`, and bounded by the barrier is an error -/
theorem past_un_err {α : Type} {n E : Nat} {r : R α} (hf : Fin r) (hp : Past n r) (hu : UN n E r) : ∃ e q, r = .err e q := by
  rcases hf with ⟨a, q, rfl⟩ | ⟨e, q, rfl⟩
  · simp only [past_ok, un_ok] at hp hu; omega
  · exact ⟨e, q, rfl⟩

/-- `get_attributes`: the loop, with iteration budgets that suffice up to `N` -/
theorem getAttributesGo_simR (h : Sim N s₁ s₂) (hs₁ : AsciiThenBoundary s₁) (hs₂ : AsciiThenBoundary s₂) {F : Nat}
    (hF₁ : exprFuel s₁ ≤ F) (hF₂ : exprFuel s₂ ≤ F) :
    ∀ (k₁ k₂ : Nat) (acc : List (Attribute Span)) (p : Nat), p ≤ N → N - p + 1 ≤ k₁ → N - p + 1 ≤ k₂ →
      SimR N (Hash s₁ N) (getAttributesGo s₁ F k₁ acc p) (getAttributesGo s₂ F k₂ acc p) := by
  intro k₁
  induction k₁ with
  | zero => intro k₂ acc p hp h1 _; omega
  | succ k₁ ih =>
    intro k₂ acc p hp h1 h2
    obtain ⟨k₂, rfl⟩ : ∃ k, k₂ = k + 1 := ⟨k₂ - 1, by omega⟩
    simp only [getAttributesGo]
    rw [skipBlankInline_sim h hp]
    have hp1 := h.skipBlankInline_le hp
    have hge := (skipBlankInline_after s₁ p).le
    rw [takeByteIf_sim h hp1]
    rcases takeByteIf_cases s₁ (skipBlankInline s₁ p) 46 with ⟨ht, hb⟩ | ⟨ht, _⟩ <;> rw [ht] <;> simp only []
    · simp only [Bool.not_true, Bool.false_eq_true, if_false]
      have hlt := h.lt_of_byte hp1 hb (by decide)
      have hlt2 := h.succ_lt hlt hb (by decide)
      have hfin₁ := getAttribute_fin hs₁ hF₁ (p := skipBlankInline s₁ p + 1) (by have := h.lt₁ (Nat.le_of_lt hlt2); omega)
      have hfin₂ := getAttribute_fin hs₂ hF₂ (p := skipBlankInline s₁ p + 1) (by have := h.lt₂ (Nat.le_of_lt hlt2); omega)
      rcases getAttribute_simR h F hlt2 with ⟨hle, heq⟩ | ⟨hH, hp1', hp2'⟩
      · rw [heq]
        cases ha : getAttribute s₁ F (skipBlankInline s₁ p + 1) with
        | ok a q =>
          rw [ha] at hle
          have hg := getAttribute_ge s₁ F (skipBlankInline s₁ p + 1)
          rw [ha] at hg
          simp only [curGe_ok, curLe_ok] at hg hle
          exact ih k₂ _ q hle (by omega) (by omega)
        | err e q => exact SimR.of_eq rfl (by simp only [curLe_ok]; exact hp)
        | panic m => exact SimR.of_eq rfl trivial
        | fuel => exact SimR.of_eq rfl trivial
      · obtain ⟨E₁, hb₁⟩ := h.t₁.bar hH
        obtain ⟨E₂, hb₂⟩ := h.t₂.bar (fun hh => hH (h.hash_iff.mp hh))
        obtain ⟨e₁, q₁, hr₁⟩ := past_un_err hfin₁ hp1' (hb₁.getAttribute_lt F hlt2)
        obtain ⟨e₂, q₂, hr₂⟩ := past_un_err hfin₂ hp2' (hb₂.getAttribute_lt F hlt2)
        rw [hr₁, hr₂]
        exact SimR.of_eq rfl (by simp only [curLe_ok]; exact hp)
    · simp only [Bool.not_false, if_true]
      exact SimR.of_eq rfl (by simp only [curLe_ok]; exact hp)

theorem getAttributes_simR (h : Sim N s₁ s₂) (hs₁ : AsciiThenBoundary s₁) (hs₂ : AsciiThenBoundary s₂) {F : Nat}
    (hF₁ : exprFuel s₁ ≤ F) (hF₂ : exprFuel s₂ ≤ F) {p : Nat} (hp : p ≤ N) :
    SimR N (Hash s₁ N) (getAttributes s₁ F p) (getAttributes s₂ F p) := by
  unfold getAttributes
  exact getAttributesGo_simR h hs₁ hs₂ hF₁ hF₂ _ _ [] p hp (by have := h.lt₁ (Nat.le_refl N); omega)
    (by have := h.lt₂ (Nat.le_refl N); omega)

/-! ## messages and terms -/

/-- what `get_message` / `get_term` do after the `=`: value, blank block, attributes (one source): behind `N` once the
value is -/
theorem valueAttrs_past {α : Type} {s : Src} {N F q2 : Nat} (hp : Past N (getPattern s F q2))
    (k : Option (Pattern Span) → List (Attribute Span) → Nat → R α)
    (hk : ∀ o attrs q5, N < q5 → Past N (k o attrs q5)) :
    Past N (match getPattern s F q2 with
      | .ok pattern q3 =>
        (match getAttributes s F (skipBlankBlock s q3).1 with
         | .ok attrs q5 => k pattern attrs q5
         | .err e q5 => .err e q5
         | .panic m => .panic m
         | .fuel => .fuel)
      | .err e q3 => .err e q3
      | .panic m => .panic m
      | .fuel => .fuel) := by
  cases hpat : getPattern s F q2 with
  | ok o q3 =>
    rw [hpat] at hp
    simp only [past_ok] at hp
    have h1 := skipBlankBlock_le s q3
    have hg := getAttributes_ge s F (skipBlankBlock s q3).1
    simp only []
    cases ha : getAttributes s F (skipBlankBlock s q3).1 with
    | ok attrs q5 =>
      rw [ha] at hg
      simp only [curGe_ok] at hg
      exact hk o attrs q5 (by omega)
    | err e q5 =>
      rw [ha] at hg
      simp only [curGe_err] at hg
      simp only [past_err]; omega
    | panic m => trivial
    | fuel => trivial
  | err e q3 => rw [hpat] at hp; exact hp
  | panic m => trivial
  | fuel => trivial

/-- the same part in two sources -/
theorem valueAttrs_simR {α : Type} (h : Sim N s₁ s₂) (hs₁ : AsciiThenBoundary s₁) (hs₂ : AsciiThenBoundary s₂) {F : Nat}
    (hF₁ : exprFuel s₁ ≤ F) (hF₂ : exprFuel s₂ ≤ F) {q2 : Nat} (hq2 : q2 < N)
    (k : Option (Pattern Span) → List (Attribute Span) → Nat → R α)
    (hk1 : ∀ o attrs q5, q5 ≤ N → CurLe N (k o attrs q5)) (hk2 : ∀ o attrs q5, N < q5 → Past N (k o attrs q5)) :
    SimR N (Hash s₁ N)
      (match getPattern s₁ F q2 with
        | .ok pattern q3 =>
          (match getAttributes s₁ F (skipBlankBlock s₁ q3).1 with
           | .ok attrs q5 => k pattern attrs q5
           | .err e q5 => .err e q5
           | .panic m => .panic m
           | .fuel => .fuel)
        | .err e q3 => .err e q3
        | .panic m => .panic m
        | .fuel => .fuel)
      (match getPattern s₂ F q2 with
        | .ok pattern q3 =>
          (match getAttributes s₂ F (skipBlankBlock s₂ q3).1 with
           | .ok attrs q5 => k pattern attrs q5
           | .err e q5 => .err e q5
           | .panic m => .panic m
           | .fuel => .fuel)
        | .err e q3 => .err e q3
        | .panic m => .panic m
        | .fuel => .fuel) := by
  rcases (sspecs_all h F).pattern _ hq2 with ⟨hle, heq⟩ | ⟨hH, hp1, hp2⟩
  · rw [heq]
    cases hpat : getPattern s₁ F q2 with
    | ok o q3 =>
      rw [hpat] at hle
      simp only [curLe_ok] at hle
      simp only []
      rw [skipBlankBlock_sim h hle]
      have hq4 := h.skipBlankBlock_le hle
      rcases getAttributes_simR h hs₁ hs₂ hF₁ hF₂ hq4 with ⟨hle', heq'⟩ | ⟨hH, hp1, hp2⟩
      · rw [heq']
        cases ha : getAttributes s₁ F (skipBlankBlock s₁ q3).1 with
        | ok attrs q5 =>
          rw [ha] at hle'
          exact SimR.of_eq rfl (hk1 _ _ _ hle')
        | err e q5 => rw [ha] at hle'; exact SimR.of_eq rfl hle'
        | panic m => exact SimR.of_eq rfl trivial
        | fuel => exact SimR.of_eq rfl trivial
      · refine SimR.of_past hH ?_ ?_
        · revert hp1
          cases getAttributes s₁ F (skipBlankBlock s₁ q3).1 with
          | ok attrs q5 => exact fun hx => hk2 _ _ _ hx
          | err e q5 => exact fun hx => hx
          | panic m => exact fun hx => hx
          | fuel => exact fun hx => hx
        · revert hp2
          cases getAttributes s₂ F (skipBlankBlock s₁ q3).1 with
          | ok attrs q5 => exact fun hx => hk2 _ _ _ hx
          | err e q5 => exact fun hx => hx
          | panic m => exact fun hx => hx
          | fuel => exact fun hx => hx
    | err e q3 => rw [hpat] at hle; exact SimR.of_eq rfl hle
    | panic m => exact SimR.of_eq rfl trivial
    | fuel => exact SimR.of_eq rfl trivial
  · exact SimR.of_past hH (valueAttrs_past hp1 k hk2) (valueAttrs_past hp2 k hk2)

theorem getMessage_simR (h : Sim N s₁ s₂) (hs₁ : AsciiThenBoundary s₁) (hs₂ : AsciiThenBoundary s₂) {F : Nat}
    (hF₁ : exprFuel s₁ ≤ F) (hF₂ : exprFuel s₂ ≤ F) (es : Nat) {p : Nat} (hp : p < N) :
    SimR N (Hash s₁ N) (getMessage s₁ F es p) (getMessage s₂ F es p) := by
  unfold getMessage
  obtain ⟨e1, hle0, e2⟩ := getIdentifier_sim h hp
  rw [e1]
  cases hid : getIdentifier s₁ p with
  | ok id q =>
    obtain ⟨hq, _⟩ := e2 id q hid
    simp only []
    rw [skipBlankInline_sim h (Nat.le_of_lt hq)]
    have hq1 := h.skipBlankInline_lt hq
    rw [expectByte_sim h (Nat.le_of_lt hq1)]
    cases hx : expectByte s₁ (skipBlankInline s₁ q) 61 with
    | ok u q2 =>
      obtain ⟨rfl, _, hq2⟩ := h.expectByte_ok_lt (Nat.le_of_lt hq1) (b := 61) (by decide) hx
      have hq2 := hq2 (by decide)
      simp only []
      exact valueAttrs_simR h hs₁ hs₂ hF₁ hF₂ hq2
        (fun pattern attrs q5 =>
          if pattern.isNone && attrs.isEmpty then .err (mkErr2 (.expectedMessageField id) es q5) q5
          else .ok (⟨id, pattern, attrs, none⟩ : Message Span) q5)
        (fun o attrs q5 hq5 => by split <;> exact hq5) (fun o attrs q5 hq5 => by split <;> exact hq5)
    | err e q2 =>
      have : q2 = skipBlankInline s₁ q := by
        rcases expectByte_cases s₁ (skipBlankInline s₁ q) 61 with ⟨hx', _⟩ | ⟨hx', _⟩ <;> rw [hx'] at hx <;> cases hx
        rfl
      exact SimR.of_eq rfl (by simp only [curLe_err]; omega)
    | panic m => exact SimR.of_eq rfl trivial
    | fuel => exact SimR.of_eq rfl trivial
  | err e q => rw [hid] at hle0; exact SimR.of_eq rfl hle0
  | panic m => exact SimR.of_eq rfl trivial
  | fuel => exact SimR.of_eq rfl trivial

theorem getTerm_simR (h : Sim N s₁ s₂) (hs₁ : AsciiThenBoundary s₁) (hs₂ : AsciiThenBoundary s₂) {F : Nat}
    (hF₁ : exprFuel s₁ ≤ F) (hF₂ : exprFuel s₂ ≤ F) (es : Nat) {p : Nat} (hp : p < N) :
    SimR N (Hash s₁ N) (getTerm s₁ F es p) (getTerm s₂ F es p) := by
  unfold getTerm
  rw [expectByte_sim h (Nat.le_of_lt hp)]
  cases hx0 : expectByte s₁ p 45 with
  | ok u p0 =>
    have hp0 : p0 = p + 1 ∧ s₁[p]? = some 45 := by
      rcases expectByte_cases s₁ p 45 with ⟨hx', hb⟩ | ⟨hx', _⟩ <;> rw [hx'] at hx0 <;> cases hx0
      exact ⟨rfl, hb⟩
    obtain ⟨rfl, hb45⟩ := hp0
    have hp0' : p + 1 < N := h.succ_lt hp hb45 (by decide)
    simp only []
    obtain ⟨e1, hle0, e2⟩ := getIdentifier_sim h hp0'
    rw [e1]
    cases hid : getIdentifier s₁ (p + 1) with
    | ok id q =>
      obtain ⟨hq, _⟩ := e2 id q hid
      simp only []
      rw [skipBlankInline_sim h (Nat.le_of_lt hq)]
      have hq1 := h.skipBlankInline_lt hq
      rw [expectByte_sim h (Nat.le_of_lt hq1)]
      cases hx : expectByte s₁ (skipBlankInline s₁ q) 61 with
      | ok u q2 =>
        obtain ⟨rfl, _, hq2⟩ := h.expectByte_ok_lt (Nat.le_of_lt hq1) (b := 61) (by decide) hx
        have hq2 := hq2 (by decide)
        simp only []
        rw [skipBlankInline_sim h (Nat.le_of_lt hq2)]
        have hq2' := h.skipBlankInline_lt hq2
        exact valueAttrs_simR h hs₁ hs₂ hF₁ hF₂ hq2'
          (fun value attrs q5 =>
            match value with
            | some v => .ok (⟨id, v, attrs, none⟩ : Term Span) q5
            | none => .err (mkErr2 (.expectedTermField id) es q5) q5)
          (fun o attrs q5 hq5 => by cases o <;> exact hq5) (fun o attrs q5 hq5 => by cases o <;> exact hq5)
      | err e q2 =>
        have : q2 = skipBlankInline s₁ q := by
          rcases expectByte_cases s₁ (skipBlankInline s₁ q) 61 with ⟨hx', _⟩ | ⟨hx', _⟩ <;> rw [hx'] at hx <;> cases hx
          rfl
        exact SimR.of_eq rfl (by simp only [curLe_err]; omega)
      | panic m => exact SimR.of_eq rfl trivial
      | fuel => exact SimR.of_eq rfl trivial
    | err e q => rw [hid] at hle0; exact SimR.of_eq rfl hle0
    | panic m => exact SimR.of_eq rfl trivial
    | fuel => exact SimR.of_eq rfl trivial
  | err e q =>
    have : q = p := by
      rcases expectByte_cases s₁ p 45 with ⟨hx', _⟩ | ⟨hx', _⟩ <;> rw [hx'] at hx0 <;> cases hx0
      rfl
    exact SimR.of_eq rfl (by simp only [curLe_err]; omega)
  | panic m => exact SimR.of_eq rfl trivial
  | fuel => exact SimR.of_eq rfl trivial

end

end FluentProofs.Parser
