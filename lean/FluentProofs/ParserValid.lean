import FluentModel.Parser
/-!
# `ValidEntry`: the documented syntax rules that are visible in the AST (C03, third sentence)

A decidable (Bool-valued) predicate over an `Entry Span` and the source bytes `s`; every string of
the tree is read back with `spanBytes s`.  It says, for a message or term (every other entry kind
is trivially valid):

* identifiers (message/term/attribute/variable/function/reference ids, attribute accessors,
  named-argument names, identifier variant keys) match `[a-zA-Z][a-zA-Z0-9_-]*` (`identBytesOk`);
* number literals and numeric variant keys match `-?[0-9]+(\.[0-9]+)?` (`numBytesOk`);
* string literals contain only the escapes `\\`, `\"`, `\uXXXX`, `\UXXXXXX` (hex digits), no raw
  line feed and no unescaped `"` (`strBytesOk`);
* text elements contain no `{` and no `}` (`textOk`);
* every select expression has exactly one default variant (hence at least one variant), and its
  selector is a string/number literal, a variable, a function call or a term *attribute* — never a
  message reference, a bare term reference or a nested placeable (`selectorOk`);
* no placeable expression (top level of a pattern or nested `{ { … } }`) is a term-attribute
  reference (`isTermAttr`);
* a function callee consists of `[A-Z0-9_-]` bytes and starts with an upper-case letter
  (`calleeOk`); named-argument names of every call (function or term) are pairwise distinct as
  byte strings (`namesDistinct`);
* every pattern (message/term/attribute value, variant value) has at least one element, and a
  message has a value or at least one attribute.

Deliberately not part of it (the Rust parser is lenient there and the tree cannot show it):
positional-after-named order, literal-ness of named values, commas.
-/
namespace FluentProofs.Parser
open FluentModel FluentModel.Syntax

/-! ## byte-string shapes -/

/-- `[a-zA-Z][a-zA-Z0-9_-]*` -/
def identBytesOk : List UInt8 → Bool
  | [] => false
  | b :: rest => isAlpha b && rest.all isIdentByte

/-- drop one leading `-` -/
def stripSign : List UInt8 → List UInt8
  | [] => []
  | b :: r => if b == 45 then r else b :: r

/-- `-?[0-9]+(\.[0-9]+)?` -/
def numBytesOk (l : List UInt8) : Bool :=
  let l1 := stripSign l
  let ds := l1.takeWhile isDigit
  let r := l1.dropWhile isDigit
  !ds.isEmpty &&
    (match r with
     | [] => true
     | c :: r2 => c == 46 && !r2.isEmpty && r2.all isDigit)

/-- body of a string literal: ordinary bytes (no `"`, no line feed, no lone `\`) and the escapes
`\\`, `\"`, `\uXXXX`, `\UXXXXXX` -/
def strBytesOk : List UInt8 → Bool
  | [] => true
  | b :: rest =>
    if b == 92 then
      match rest with
      | [] => false
      | c :: rest' =>
        if c == 92 || c == 34 then strBytesOk rest'
        else if c == 117 then
          match rest' with
          | h1 :: h2 :: h3 :: h4 :: r =>
            isHexDigit h1 && isHexDigit h2 && isHexDigit h3 && isHexDigit h4 && strBytesOk r
          | _ => false
        else if c == 85 then
          match rest' with
          | h1 :: h2 :: h3 :: h4 :: h5 :: h6 :: r =>
            isHexDigit h1 && isHexDigit h2 && isHexDigit h3 && isHexDigit h4 && isHexDigit h5 && isHexDigit h6 &&
              strBytesOk r
          | _ => false
        else false
    else if b == 34 || b == 10 then false
    else strBytesOk rest

def noBrace (b : UInt8) : Bool := b != 123 && b != 125

def identOk (s : Src) (sp : Span) : Bool := identBytesOk (spanBytes s sp)
def numOk (s : Src) (sp : Span) : Bool := numBytesOk (spanBytes s sp)
def strOk (s : Src) (sp : Span) : Bool := strBytesOk (spanBytes s sp)
def textOk (s : Src) (sp : Span) : Bool := (spanBytes s sp).all noBrace

/-- `[A-Z0-9_-]*` starting with an upper-case letter -/
def calleeOk (s : Src) (sp : Span) : Bool :=
  isCallee s sp &&
    (match spanBytes s sp with
     | b :: _ => isUpper b
     | [] => false)

/-- pairwise distinct as byte strings -/
def namesDistinct (s : Src) : List Span → Bool
  | [] => true
  | n :: rest => !(rest.any fun m => spanBytes s m == spanBytes s n) && namesDistinct s rest

def optIdentOk (s : Src) : Option Span → Bool
  | none => true
  | some a => identOk s a

/-! ## the tree -/

def variantDefault : Variant Span → Bool
  | .mk _ _ d => d

/-- what may be selected on -/
def selectorOk : Inline Span → Bool
  | .str _ => true
  | .num _ => true
  | .var _ => true
  | .fn _ _ _ => true
  | .term _ (some _) _ => true
  | _ => false

/-- `-term.attr` (with or without arguments) -/
def isTermAttr : Inline Span → Bool
  | .term _ (some _) _ => true
  | _ => false

def vkeyOk (s : Src) : VKey Span → Bool
  | .ident n => identOk s n
  | .num v => numOk s v

mutual
def vInline (s : Src) : Inline Span → Bool
  | .str v => strOk s v
  | .num v => numOk s v
  | .fn id pos named =>
    identOk s id && calleeOk s id && vInl s pos && vNamed s named && namesDistinct s (named.map (·.1))
  | .msg id attr => identOk s id && optIdentOk s attr
  | .term id attr none => identOk s id && optIdentOk s attr
  | .term id attr (some (pos, named)) =>
    identOk s id && optIdentOk s attr && vInl s pos && vNamed s named && namesDistinct s (named.map (·.1))
  | .var id => identOk s id
  | .placeable e => vExpr s e
def vInl (s : Src) : List (Inline Span) → Bool
  | [] => true
  | x :: xs => vInline s x && vInl s xs
def vNamed (s : Src) : List (Span × Inline Span) → Bool
  | [] => true
  | (n, x) :: xs => identOk s n && vInline s x && vNamed s xs
/-- an expression inside `{ … }` -/
def vExpr (s : Src) : Expr Span → Bool
  | .inline e => vInline s e && !isTermAttr e
  | .select sel vs => vInline s sel && selectorOk sel && vVariants s vs && vs.countP variantDefault == 1
def vVariants (s : Src) : List (Variant Span) → Bool
  | [] => true
  | v :: vs => vVariant s v && vVariants s vs
def vVariant (s : Src) : Variant Span → Bool
  | .mk k val _ => vkeyOk s k && !val.isEmpty && vPat s val
def vPat (s : Src) : List (PatElem Span) → Bool
  | [] => true
  | e :: es => vPatElem s e && vPat s es
def vPatElem (s : Src) : PatElem Span → Bool
  | .text v => textOk s v
  | .placeable e => vExpr s e
end

/-- a pattern: at least one element, all elements valid -/
def patOk (s : Src) (p : Pattern Span) : Bool := !p.isEmpty && vPat s p

def attrOk (s : Src) (a : Attribute Span) : Bool := identOk s a.id && patOk s a.value

/-- Bool form of `ValidEntry` -/
def validEntry (s : Src) : Entry Span → Bool
  | .message m =>
    identOk s m.id &&
      (match m.value with
       | some v => patOk s v
       | none => true) &&
      m.attributes.all (attrOk s) && (m.value.isSome || !m.attributes.isEmpty)
  | .term t => identOk s t.id && patOk s t.value && t.attributes.all (attrOk s)
  | _ => true

/-- **the AST-visible syntax rules hold for the entry** (trivially for comments and Junk) -/
def ValidEntry (s : Src) (e : Entry Span) : Prop := validEntry s e = true

instance (s : Src) (e : Entry Span) : Decidable (ValidEntry s e) := by unfold ValidEntry; infer_instance

end FluentProofs.Parser
