import FluentProofs.ParserBasics
/-!
# C01 helpers: "every string in the tree satisfies `P`", and the pattern post-processing

`Inline.All P` & co. say that every `S` stored in a syntax tree satisfies `P`; with `P = VSpan s`
this is the slice-validity half of C01.  `finishElements_ok` is the Hoare lemma for the final
`.map(...)` of `get_pattern` (dedentation + trimming), under the invariant `PhOk` that
`get_pattern`'s loop maintains for the placeholders it collects.
-/
namespace FluentProofs.Parser
open FluentModel.Syntax

section All
variable {S : Type} (P : S → Prop)

def OptAll : Option S → Prop
  | none => True
  | some a => P a

def allVKey : VKey S → Prop
  | .ident n => P n
  | .num v => P v

mutual
def allInline : Inline S → Prop
  | .str v => P v
  | .num v => P v
  | .fn id pos named => P id ∧ allInl pos ∧ allNamed named
  | .msg id attr => P id ∧ OptAll P attr
  | .term id attr none => P id ∧ OptAll P attr
  | .term id attr (some (pos, named)) => P id ∧ OptAll P attr ∧ allInl pos ∧ allNamed named
  | .var id => P id
  | .placeable e => allExpr e
def allInl : List (Inline S) → Prop
  | [] => True
  | x :: xs => allInline x ∧ allInl xs
def allNamed : List (S × Inline S) → Prop
  | [] => True
  | (n, x) :: xs => P n ∧ allInline x ∧ allNamed xs
def allExpr : Expr S → Prop
  | .inline e => allInline e
  | .select sel vs => allInline sel ∧ allVariants vs
def allVariants : List (Variant S) → Prop
  | [] => True
  | v :: vs => allVariant v ∧ allVariants vs
def allVariant : Variant S → Prop
  | .mk k val _ => allVKey P k ∧ allPat val
def allPat : List (PatElem S) → Prop
  | [] => True
  | e :: es => allPatElem e ∧ allPat es
def allPatElem : PatElem S → Prop
  | .text v => P v
  | .placeable e => allExpr e
end

theorem allInl_append (xs : List (Inline S)) (x : Inline S) : allInl P (xs ++ [x]) ↔ allInl P xs ∧ allInline P x := by
  induction xs with
  | nil => simp [allInl]
  | cons y ys ih => simp [allInl, ih, and_assoc]

theorem allNamed_append (xs : List (S × Inline S)) (n : S) (x : Inline S) :
    allNamed P (xs ++ [(n, x)]) ↔ allNamed P xs ∧ P n ∧ allInline P x := by
  induction xs with
  | nil => simp [allNamed]
  | cons y ys ih => obtain ⟨m, y⟩ := y; simp [allNamed, ih, and_assoc]

theorem allVariants_append (xs : List (Variant S)) (x : Variant S) :
    allVariants P (xs ++ [x]) ↔ allVariants P xs ∧ allVariant P x := by
  induction xs with
  | nil => simp [allVariants]
  | cons y ys ih => simp [allVariants, ih, and_assoc]

theorem allPat_cons (x : PatElem S) (xs : List (PatElem S)) : allPat P (x :: xs) ↔ allPatElem P x ∧ allPat P xs := by
  simp [allPat]

def allAttr (a : Attribute S) : Prop := P a.id ∧ allPat P a.value

def allEntry : Entry S → Prop
  | .message m => P m.id ∧ (∀ v, m.value = some v → allPat P v) ∧ (∀ a ∈ m.attributes, allAttr P a) ∧
      (∀ c, m.comment = some c → ∀ l ∈ c, P l)
  | .term t => P t.id ∧ allPat P t.value ∧ (∀ a ∈ t.attributes, allAttr P a) ∧ (∀ c, t.comment = some c → ∀ l ∈ c, P l)
  | .comment c => ∀ l ∈ c, P l
  | .groupComment c => ∀ l ∈ c, P l
  | .resourceComment c => ∀ l ∈ c, P l
  | .junk c => P c

end All

/-! ## placeholders and `finishElements` -/

/-- invariant of the placeholders collected by `get_pattern` -/
def PhOk (s : Src) : Placeholder → Prop
  | .placeable e => allExpr (VSpan s) e
  | .text start stop indent _ =>
    start + indent ≤ stop ∧ Bnd s stop ∧ Bnd s start ∧ ∀ j, j < indent → s[start + j]? = some 32

theorem bnd_add_spaces {s : Src} (hs : AsciiThenBoundary s) {start indent k : Nat} (hb : Bnd s start)
    (hsp : ∀ j, j < indent → s[start + j]? = some 32) (hk : k ≤ indent) : Bnd s (start + k) := by
  cases k with
  | zero => exact hb
  | succ k => exact bnd_succ hs (hsp k (by omega)) (by decide)

theorem finishElements_ok {s : Src} (hs : AsciiThenBoundary s) (ci : Option Nat) (lnb i : Nat) (els : List Placeholder)
    (h : ∀ ph ∈ els, PhOk s ph) :
    ∃ r, finishElements s ci lnb i els = some r ∧ allPat (VSpan s) r := by
  induction els generalizing i with
  | nil => exact ⟨[], rfl, trivial⟩
  | cons ph rest ih =>
    have hrest : ∀ ph ∈ rest, PhOk s ph := fun x hx => h x (List.mem_cons_of_mem _ hx)
    have hph := h ph (List.mem_cons_self)
    obtain ⟨r, hr, hv⟩ := ih (i + 1) hrest
    simp only [finishElements]
    split
    · exact ⟨[], rfl, trivial⟩
    · cases ph with
      | placeable e =>
        simp only [hr, Option.map_some]
        exact ⟨_, rfl, hph, hv⟩
      | text start stop indent role =>
        obtain ⟨h1, h2, h3, h4⟩ := hph
        have key : ∀ start', start' ≤ stop → Bnd s start' →
            ∃ r', (if (start' == stop) = true then finishElements s ci lnb (i + 1) rest
              else match slice s start' stop with
                | none => none
                | some sp => Option.map (fun x => PatElem.text (if (lnb == i) = true then trimEnd s sp else sp) :: x)
                    (finishElements s ci lnb (i + 1) rest)) = some r' ∧ allPat (VSpan s) r' := by
          intro start' hle hb'
          split
          · exact ⟨r, hr, hv⟩
          · rw [slice_ok hle hb' h2]
            simp only [hr, Option.map_some]
            refine ⟨_, rfl, ?_, hv⟩
            have hvs : VSpan s ⟨start', stop⟩ := vspan_mk hle hb' h2
            show VSpan s _
            split
            · exact trimEnd_vspan hvs
            · exact hvs
        refine key _ ?_ ?_
        · split
          · split
            · exact h1
            · have := Nat.min_le_left indent ‹Nat›; omega
          · omega
        · split
          · split
            · exact bnd_add_spaces hs h3 h4 (Nat.le_refl _)
            · exact bnd_add_spaces hs h3 h4 (Nat.min_le_left _ _)
          · exact h3

end FluentProofs.Parser
