import FluentProofs.Memo
import FluentProofs.MemoConc
/-!
Lock-granularity corollary of the C14 theorems, used by C15: with a *pure* `construct` and world-independent
callbacks, what a thread gets from the thread-safe memoizer does not depend on the schedule – it is
`pureOutcome` (callback applied to what `construct` returns for the key, or `construct`'s error) of its own
lookups, i.e. what that thread alone would get from a cold memoizer.

Ingredients: the simulation invariant `CInv` (results = sequential run in lock-acquisition order,
`MemoConc.lean`), `lookup_eq_construct_run` (sequential outcomes = pure outcomes, `Memo.lean`), the
interleaving invariant `IInv`, and a list lemma (filtering tagged outcomes by thread commutes with mapping).
-/
namespace FluentModel.Memo
set_option linter.unusedSectionVars false

/-- filtering the thread-tagged outcomes by thread commutes with mapping the outcome function -/
theorem filter_tagged_map {A B : Type} (g : A → B) (t : Nat) :
    ∀ (outs : List (Nat × B)) (order : List (Nat × A)),
      outs.map (·.1) = order.map (·.1) → outs.map (·.2) = (order.map (·.2)).map g →
      (outs.filter fun p => decide (p.1 = t)).map (·.2) =
        ((order.filter fun p => decide (p.1 = t)).map (·.2)).map g := by
  intro outs
  induction outs with
  | nil =>
    intro order h1 _
    cases order with
    | nil => rfl
    | cons q r => simp at h1
  | cons p ps ih =>
    intro order h1 h2
    cases order with
    | nil => simp at h1
    | cons q r =>
      simp only [List.map_cons, List.cons.injEq] at h1 h2
      obtain ⟨h1a, h1b⟩ := h1
      obtain ⟨h2a, h2b⟩ := h2
      have := ih r h1b h2b
      simp only [List.filter_cons]
      rw [h1a]
      by_cases e : q.1 = t
      · simp only [e, decide_true, if_true, List.map_cons, this, h2a]
      · simp only [e, decide_false, Bool.false_eq_true, if_false, this]

section Pure
variable {σ L τ α ι ε ρ : Type} [DecidableEq τ] [DecidableEq α]
variable (X : Ext σ L τ α ι ε) (lang : L) (w₀ : σ)

/-- the lookups of thread `t` in acquisition order, read off the oldest-first order -/
theorem acqOf_eq_filter_reverse (t : Nat) (acq : List (Nat × Op σ τ α ι ρ)) :
    acqOf t acq = (acq.reverse.filter fun p => decide (p.1 = t)).map (·.2) := by
  simp [acqOf, List.filter_reverse, List.map_reverse]

/-- program of thread `t` at the start -/
def progOf (progs : List (List (Op σ τ α ι ρ))) (t : Nat) : List (Op σ τ α ι ρ) :=
  match progs[t]? with
  | some p => p
  | none => []

theorem init_prog (progs : List (List (Op σ τ α ι ρ))) (t : Nat) :
    ((CState.init lang w₀ progs : CState σ L τ α ι ε ρ).threads t).prog = progOf progs t := by
  simp only [CState.init, progOf]
  cases progs[t]? <;> rfl

theorem mem_progOf (progs : List (List (Op σ τ α ι ρ))) (t : Nat) (op : Op σ τ α ι ρ)
    (h : op ∈ progOf progs t) : ∃ p, p ∈ progs ∧ op ∈ p := by
  unfold progOf at h
  cases hp : progs[t]? with
  | none => rw [hp] at h; cases h
  | some p => rw [hp] at h; exact ⟨p, List.mem_of_getElem? hp, h⟩

/-- under every schedule: what thread `t` acquired so far followed by what it has not started is its program -/
theorem acq_interleaves (progs : List (List (Op σ τ α ι ρ))) (sched : List Nat) (t : Nat) :
    acqOf t (crun X sched (CState.init lang w₀ progs : CState σ L τ α ι ε ρ)).acq ++
      ((crun X sched (CState.init lang w₀ progs : CState σ L τ α ι ε ρ)).threads t).prog = progOf progs t := by
  have := IInv_run X (fun t => progOf progs t) sched (CState.init lang w₀ progs : CState σ L τ α ι ε ρ)
    (by intro t; rw [init_prog]; simp [CState.init, acqOf]) t
  exact this

/-- every lookup that ever acquired the lock comes from one of the programs -/
theorem acq_from_progs (progs : List (List (Op σ τ α ι ρ))) (sched : List Nat) (op : Op σ τ α ι ρ)
    (h : op ∈ (crun X sched (CState.init lang w₀ progs : CState σ L τ α ι ε ρ)).acq.reverse.map (·.2)) :
    ∃ p, p ∈ progs ∧ op ∈ p := by
  obtain ⟨q, hq, rfl⟩ := List.mem_map.1 h
  have hq' := List.mem_reverse.1 hq
  have : q.2 ∈ acqOf q.1 (crun X sched (CState.init lang w₀ progs : CState σ L τ α ι ε ρ)).acq := by
    unfold acqOf
    rw [List.mem_reverse]
    exact List.mem_map.2 ⟨q, List.mem_filter.2 ⟨hq', by simp⟩, rfl⟩
  apply mem_progOf progs q.1
  rw [← acq_interleaves X lang w₀ progs sched q.1]
  exact List.mem_append_left _ this

variable (f : L → τ → α → Except ε ι) (hpure : ∀ w l t a, (X.construct w l t a).1 = f l t a)
include hpure

/-- **lock-free states**: with a pure `construct` and world-independent callbacks, under every schedule, whenever
the lock is free every thread's results (oldest first) are exactly the pure outcomes of the lookups that thread
has acquired so far -/
theorem lookups_schedule_independent (progs : List (List (Op σ τ α ι ρ)))
    (hcb : ∀ p ∈ progs, ∀ op ∈ p, ∀ i w w', (op.cb i w).1 = (op.cb i w').1) (sched : List Nat)
    (hl : (crun X sched (CState.init lang w₀ progs : CState σ L τ α ι ε ρ)).lock = none) (t : Nat) :
    ((crun X sched (CState.init lang w₀ progs : CState σ L τ α ι ε ρ)).threads t).results.reverse =
      (acqOf t (crun X sched (CState.init lang w₀ progs : CState σ L τ α ι ε ρ)).acq).map
        (pureOutcome f lang w₀) := by
  generalize hs : crun X sched (CState.init lang w₀ progs : CState σ L τ α ι ε ρ) = s at hl ⊢
  have hi : CInv X lang w₀ s := by rw [← hs]; exact CInv_run X lang w₀ sched _ (CInv_init X lang w₀ progs)
  obtain ⟨_, _, q3⟩ := hi.quiet hl
  obtain ⟨_, e2, e3⟩ := seqAfter_eq_runOps X lang w₀ s.acq
  -- sequential outcomes in acquisition order = pure outcomes (the cache is unobservable)
  have hseq : (runOps X lang (s.acq.reverse.map (·.2)) LMemo.empty w₀).1 =
      (s.acq.reverse.map (·.2)).map (pureOutcome f lang w₀) := by
    apply lookup_eq_construct_run X lang LMemo.empty w₀ f hpure w₀ _ _ (PInv_empty lang f)
    intro op hop
    obtain ⟨p, hp, hop'⟩ := acq_from_progs X lang w₀ progs sched op (by rw [hs]; exact hop)
    exact hcb p hp op hop'
  rw [q3 t, acqOf_eq_filter_reverse]
  have := filter_tagged_map (pureOutcome f lang w₀) t (seqOuts X lang w₀ s.acq).reverse s.acq.reverse e3
    (e2.trans hseq)
  rw [← this]
  simp only [outsOf, List.filter_reverse, List.map_reverse]

/-- **complete runs**: in any state where no thread is unfinished, thread `t` holds exactly the pure outcomes of
its whole program, in program order – whatever the schedule was -/
theorem complete_results_schedule_independent (progs : List (List (Op σ τ α ι ρ)))
    (hcb : ∀ p ∈ progs, ∀ op ∈ p, ∀ i w w', (op.cb i w).1 = (op.cb i w').1) (sched : List Nat)
    (hf : ∀ t, ¬ unfinished (crun X sched (CState.init lang w₀ progs : CState σ L τ α ι ε ρ)) t) (t : Nat) :
    ((crun X sched (CState.init lang w₀ progs : CState σ L τ α ι ε ρ)).threads t).results.reverse =
      (progOf progs t).map (pureOutcome f lang w₀) := by
  have hi := CInv_run X lang w₀ sched _ (CInv_init X lang w₀ progs)
  have hl := lock_free_of_finished X lang w₀ _ hi hf
  rw [lookups_schedule_independent X lang w₀ f hpure progs hcb sched hl t]
  have h1 := acq_interleaves X lang w₀ progs sched t
  have hidle : ((crun X sched (CState.init lang w₀ progs : CState σ L τ α ι ε ρ)).threads t).prog = [] := by
    have h2 := hf t
    unfold unfinished at h2
    cases hpc : ((crun X sched (CState.init lang w₀ progs : CState σ L τ α ι ε ρ)).threads t).pc with
    | idle => rw [hpc] at h2; exact Classical.byContradiction fun hne => h2 hne
    | locked op => rw [hpc] at h2; exact absurd trivial h2
    | done r => rw [hpc] at h2; exact absurd trivial h2
  rw [hidle, List.append_nil] at h1
  rw [h1]

/-- … which is what thread `t` alone gets from a cold memoizer -/
theorem complete_results_eq_single_thread (progs : List (List (Op σ τ α ι ρ)))
    (hcb : ∀ p ∈ progs, ∀ op ∈ p, ∀ i w w', (op.cb i w).1 = (op.cb i w').1) (sched : List Nat)
    (hf : ∀ t, ¬ unfinished (crun X sched (CState.init lang w₀ progs : CState σ L τ α ι ε ρ)) t) (t : Nat) :
    ((crun X sched (CState.init lang w₀ progs : CState σ L τ α ι ε ρ)).threads t).results.reverse =
      (runOps X lang (progOf progs t) LMemo.empty w₀).1 := by
  rw [complete_results_schedule_independent X lang w₀ f hpure progs hcb sched hf t]
  symm
  apply lookup_eq_construct_run X lang LMemo.empty w₀ f hpure w₀ _ _ (PInv_empty lang f)
  intro op hop
  obtain ⟨p, hp, hop'⟩ := mem_progOf progs t op hop
  exact hcb p hp op hop'

end Pure
end FluentModel.Memo
