import FluentProofs.SerializerSelect
/-!
# Serializer lemmas, part 13b: the level-indexed inline layer (C04 / T3)

A select expression may sit inside a nested placeable (`{{ $x -> … }}`, `{ { { $x -> … } } }`) or inside a
call argument (`{ F({ $x -> … }) }`).  The serializer then writes the text of an *inline* expression over
several lines, at the writer's current indent level (`inlineText L`).  `InlRT L i` / `ExprRT L e` are the
round-trip properties of an inline expression / of the expression inside a pair of braces written at level
`L`; this file proves the combination lemmas that do not involve call arguments.
-/
namespace FluentProofs.Ser
open FluentModel FluentModel.Syntax FluentModel.Syntax.Ser FluentProofs.Parser

/-- round-trip property of an inline expression written at indent level `L` -/
structure InlRT (L : Nat) (i : Inline Bytes) : Prop where
  head : ∃ b, (inlineText L i).head? = some b ∧ notBlank b = true
  ser : ∀ w : Writer, WS w L false →
    ∃ w', serInline w i = some w' ∧ w'.buffer = w.buffer ++ (inlineText L i).toArray ∧ WS w' L false
  parse : ∀ (s : Src) (p fuel : Nat), AsciiThenBoundary s → At s p (inlineText L i) →
    Follow s (p + (inlineText L i).length) → 4 * (inlineText L i).length + 4 ≤ fuel →
    ∃ e', getInline s fuel false p = .ok e' (endPos i s (p + (inlineText L i).length)) ∧ e'.mapS (spanBytes s) = i

/-- round-trip property of the expression inside a pair of braces, written at indent level `L`:
(serializer) `serialize_expression` followed by a literal `c` that ends tidily appends `innerText L e ++ c`
(after a select the `4·L` spaces in front of `c` belong to `innerText`); (parser) `get_placeable`, started
anywhere in the blanks in front of the text, reads the text, `g` spaces and the closing brace -/
structure ExprRT (L : Nat) (e : Expr Bytes) : Prop where
  head : ∃ b, (innerText L e).head? = some b ∧ notBlank b = true
  ser : ∀ (w : Writer) (c : Bytes), WS w L false → tidy c = true →
    ∃ w1, serExpr w e = some w1 ∧ (w1.writeLiteral c).buffer = w.buffer ++ (innerText L e ++ c).toArray ∧
      WS (w1.writeLiteral c) L false
  parse : ∀ (s : Src) (p0 p g n : Nat), AsciiThenBoundary s → skipBlank s p0 = p →
    At s p (innerText L e ++ spacesL g ++ [125]) → 4 * ((innerText L e).length + g) + 6 ≤ n →
    ∃ ex, getPlaceable s n p0 = .ok ex (p + (innerText L e).length + g + 1) ∧ ex.mapS (spanBytes s) = e

/-! ## small facts -/

theorem spacesL_length (n : Nat) : (spacesL n).length = n := by simp [spacesL]

theorem spacesL_add (a b : Nat) : spacesL a ++ spacesL b = spacesL (a + b) := by
  simp [spacesL, List.replicate_append_replicate]

/-- `g` spaces and a closing brace: nothing of an inline expression continues there -/
theorem follow_spaces_close (s : Src) (q g : Nat) (h : At s q (spacesL g ++ [125])) :
    Follow s q ∧ skipBlank s q = q + g ∧ s[q + g]? = some 125 := by
  rw [at_append] at h
  have h125 : s[q + g]? = some 125 := by
    have := h.2; simp only [at_cons, spacesL_length] at this; exact this.1
  have hsb : skipBlank s q = q + g :=
    skipBlank_run s g q 125 (at_spaces s q g h.1) h125 (by decide) (by decide) (by decide)
  refine ⟨⟨fun c hc => ?_, ?_, ?_⟩, hsb, h125⟩
  · by_cases hg : g = 0
    · subst hg; rw [Nat.add_zero] at h125; rw [h125] at hc; cases hc; decide
    · have := at_spaces s q g h.1 0 (by omega)
      rw [Nat.add_zero] at this; rw [this] at hc; cases hc; decide
  · rw [hsb, h125]; decide
  · rw [hsb, h125]; decide

theorem skipBlank_endPos_close (i : Inline Bytes) (s : Src) (q g : Nat) (hsb : skipBlank s q = q + g)
    (h125 : s[q + g]? = some 125) : skipBlank s (endPos i s q) = q + g := by
  have h1 : skipBlank s (q + g) = q + g := skipBlank_at_byte s _ 125 h125 (by decide) (by decide) (by decide)
  unfold endPos; split <;> simp [hsb, h1]

theorem notTermAttr_map {i : Inline Bytes} (h : ∀ a b c, i ≠ .term a (some b) c) (e' : Inline Span)
    (f : Span → Bytes) (hm : e'.mapS f = i) : ∀ a b c, e' ≠ .term a (some b) c := by
  intro a b c he
  subst he
  cases c with
  | none => simp only [Inline.mapS] at hm; exact h _ _ _ hm.symm
  | some pn => obtain ⟨p, n⟩ := pn; simp only [Inline.mapS] at hm; exact h _ _ _ hm.symm

/-- `get_inline_expression` at a `{` -/
theorem getInline_brace (s : Src) (k p : Nat) (h : s[p]? = some 123) :
    getInline s (k + 1) false p =
      match getPlaceable s k (p + 1) with
      | .ok e q => .ok (.placeable e) q
      | .err e q => .err e q
      | .panic m => .panic m
      | .fuel => .fuel := by
  rw [getInline, h]
  simp only [isDigit, isAlpha]
  cases getPlaceable s k (p + 1) <;> rfl

theorem getLast?_of_snoc {l pre : Bytes} {c : UInt8} (h : l = pre ++ [c]) : l.getLast? = some c := by
  subst h; simp

/-! ## select-free inline expressions -/

/-- **a valid (select-free) inline expression round-trips at every level** -/
theorem inlRT_of_valid (L : Nat) (i : Inline Bytes) (hv : validInline i = true) : InlRT L i := by
  have htxt := inlineText_valid L i hv
  refine ⟨by rw [htxt]; exact inlineBytes_head i hv, fun w hw => ?_, fun s p fuel hs hat hf hfu => ?_⟩
  · obtain ⟨e1, t1⟩ := serInline_eq_bytes i hv w
    obtain ⟨hb, hw1⟩ := ws_writeTidy hw (inlineBytes i) t1
    exact ⟨_, e1, by rw [htxt]; simpa using hb, hw1⟩
  · rw [htxt] at hat hf hfu ⊢
    have := fuelInline_le i hv
    exact getInline_bytes hs i hv p fuel hat hf (by omega)

/-! ## an inline expression inside braces -/

theorem exprRT_inline (L : Nat) (i : Inline Bytes) (h : InlRT L i) (hnt : ∀ a b c, i ≠ .term a (some b) c) :
    ExprRT L (.inline i) := by
  refine ⟨by simpa [innerText] using h.head, fun w c hw hc => ?_, fun s p0 p g n hs hsb hat hn => ?_⟩
  · obtain ⟨w1, hs1, hb1, hw1⟩ := h.ser w hw
    obtain ⟨hb2, hw2⟩ := ws_writeTidy hw1 c hc
    refine ⟨w1, by simpa [serExpr] using hs1, ?_, hw2⟩
    rw [hb2, hb1]
    apply Array.ext'
    simp [innerText]
  · simp only [innerText] at hat hn ⊢
    obtain ⟨k, rfl⟩ : ∃ k, n = k + 2 := ⟨n - 2, by omega⟩
    rw [List.append_assoc, at_append] at hat
    obtain ⟨hfol, hsbq, h125⟩ := follow_spaces_close s _ g hat.2
    obtain ⟨e', he, hm⟩ := h.parse s p k hs hat.1 hfol (by omega)
    have hsb2 := skipBlank_endPos_close i s _ g hsbq h125
    refine ⟨.inline e', ?_, by simp [Expr.mapS, hm]⟩
    rw [getPlaceable_gen s k p0 p e' _ _ hsb he hsb2 h125 (notTermAttr_map hnt e' _ hm)]

/-! ## a nested placeable -/

theorem inlRT_placeable (L : Nat) (e : Expr Bytes) (h : ExprRT L e) : InlRT L (.placeable e) := by
  refine ⟨⟨123, by simp [inlineText], by decide⟩, fun w hw => ?_, fun s p fuel hs hat hf hfu => ?_⟩
  · obtain ⟨hb1, hw1⟩ := ws_writeTidy hw [123] (by decide)
    obtain ⟨w1, hs1, hb2, hw2⟩ := h.ser (w.writeLiteral [123]) [125] hw1 (by decide)
    refine ⟨w1.writeLiteral [125], by simp [serInline, hs1], ?_, hw2⟩
    rw [hb2, hb1]
    apply Array.ext'
    simp [inlineText]
  · simp only [inlineText, List.length_cons, List.length_append, List.length_nil] at hat hf hfu ⊢
    obtain ⟨k, rfl⟩ : ∃ k, fuel = k + 1 := ⟨fuel - 1, by omega⟩
    rw [at_cons] at hat
    obtain ⟨b, hb, hnb⟩ := h.head
    obtain ⟨n1, n2, n3, _⟩ := (notBlank_iff b).mp hnb
    have hb0 : s[p + 1]? = some b := by
      have := hat.2; rw [at_append] at this; exact at_head this.1 hb
    have hsb : skipBlank s (p + 1) = p + 1 := skipBlank_at_byte s _ b hb0 n1 n2 n3
    obtain ⟨ex, hpl, hm⟩ := h.parse s (p + 1) (p + 1) 0 k hs hsb (by simpa [spacesL] using hat.2) (by omega)
    refine ⟨.placeable ex, ?_, by simp [Inline.mapS, hm]⟩
    rw [getInline_brace s k p hat.1, hpl]
    simp only [endPos]
    congr 1
    omega

/-! ## a select expression inside braces -/

/-- selectors `get_expression` accepts (shape only) -/
def selShapeB : Inline Bytes → Bool
  | .str _ => true
  | .num _ => true
  | .var _ => true
  | .fn _ _ _ => true
  | .term _ (some _) _ => true
  | _ => false

theorem selShape_of_shapeB (sel : Inline Bytes) (hv : selShapeB sel = true) (e' : Inline Span) (f : Span → Bytes)
    (hm : e'.mapS f = sel) : selShape e' := by
  cases e' with
  | str v => trivial
  | num v => trivial
  | var v => trivial
  | fn a b c => trivial
  | msg a b => simp only [Inline.mapS] at hm; subst hm; simp [selShapeB] at hv
  | placeable e => simp only [Inline.mapS] at hm; subst hm; simp [selShapeB] at hv
  | term a b c =>
    cases b with
    | some b => trivial
    | none =>
      cases c with
      | none => simp only [Inline.mapS] at hm; subst hm; simp [selShapeB] at hv
      | some pn => obtain ⟨x, y⟩ := pn; simp only [Inline.mapS] at hm; subst hm; simp [selShapeB] at hv

theorem exprRT_select (L : Nat) (sel : Inline Bytes) (vs : List (Variant Bytes)) (hsel : InlRT L sel)
    (hshape : selShapeB sel = true)
    (hv : ∀ v ∈ vs, validKey (variantKey' v) = true ∧ PatRT (L + 1) (variantValue v))
    (hdef : (vs.filter isDefault).length = 1) : ExprRT L (.select sel vs) := by
  refine ⟨?_, fun w c hw hc => ?_, fun s p0 p g n hs hsb0 hat hn => ?_⟩
  · obtain ⟨b, hb, hnb⟩ := hsel.head
    refine ⟨b, ?_, hnb⟩
    simp only [innerText, List.append_assoc]
    cases hx : inlineText L sel with
    | nil => simp [hx] at hb
    | cons y ys => simpa [hx] using hb
  · obtain ⟨w1, hs1, hb1, hw1⟩ := hsel.ser w hw
    obtain ⟨hb3, hw3⟩ := ws_writeTidy hw1 [32, 45, 62] (by decide)
    obtain ⟨hb4, hw4⟩ := ws_newline hw3
    have hw5 := ws_indent hw4
    obtain ⟨w6, hs6, hb6, hw6⟩ := serVariants_sel L vs hv _ hw5
    obtain ⟨w7, hs7, hl7, hb7⟩ := dedent_of_pos (w := w6) (by rw [hw6.1]; omega)
    have hw7 : WS w7 L true := by
      obtain ⟨a, b, c⟩ := hw6
      exact ⟨by omega, by simpa [endsWith, hb7] using b, by simpa [endsWith, hb7] using c⟩
    obtain ⟨hb8, hw8⟩ := ws_writeTidy hw7 c hc
    refine ⟨w7, ?_, ?_, hw8⟩
    · simp only [serExpr, lit_arrow, hs1, hs6, hs7]
    · rw [hb8, hb7, hb6]
      simp only [indent_buffer]
      rw [hb4, hb3, hb1]
      apply Array.ext'
      simp [innerText]
  · obtain ⟨k, rfl⟩ : ∃ k, n = k + 2 := ⟨n - 2, by omega⟩
    have htxt : innerText L (.select sel vs) ++ spacesL g ++ [125] =
        inlineText L sel ++ [32, 45, 62, 10] ++ (variantsText (L + 1) vs ++ spacesL (4 * L + g) ++ [125]) := by
      simp [innerText, ← spacesL_add]
    have hlen : (innerText L (.select sel vs)).length =
        (inlineText L sel).length + 4 + (variantsText (L + 1) vs).length + 4 * L := by
      simp [innerText, spacesL_length]; omega
    rw [htxt] at hat
    rw [hlen] at hn ⊢
    rw [at_append, at_append] at hat
    obtain ⟨⟨hselAt, harrow⟩, hvarsAt⟩ := hat
    simp only [at_cons, List.length_cons, List.length_nil, List.length_append] at harrow hvarsAt
    obtain ⟨hsbe, hfol⟩ := skipBlank_endPos_gen sel s (p + (inlineText L sel).length) 45 harrow.1 harrow.2.1
      (by decide) (by decide) (by decide) (by decide) (by decide)
    obtain ⟨e', he, hme⟩ := hsel.parse s p k hs hselAt hfol (by omega)
    obtain ⟨vs', hvs, hmvs⟩ := getVariants_text hs L vs hv (4 * L + g) (p + (inlineText L sel).length + 1 + 3) k false []
      (by rw [show p + (inlineText L sel).length + 1 + 3 = p + ((inlineText L sel).length + (0 + 1 + 1 + 1 + 1)) by
            omega]; exact hvarsAt)
      (by simp [hdef]) (by omega)
    have h125 : s[p + (inlineText L sel).length + 1 + 3 + (variantsText (L + 1) vs).length + (4 * L + g)]? = some 125 := by
      rw [at_append, at_append] at hvarsAt
      have := hvarsAt.2
      simp only [at_cons] at this
      have h := this.1
      simp only [List.length_append, spacesL_length] at h
      rw [show p + (inlineText L sel).length + 1 + 3 + (variantsText (L + 1) vs).length + (4 * L + g) =
        p + ((inlineText L sel).length + (0 + 1 + 1 + 1 + 1)) + ((variantsText (L + 1) vs).length + (4 * L + g)) by omega]
      exact h
    have hpl := getPlaceable_select s k p0 p e' _ _ vs' _ hsb0 he
      (selShape_of_shapeB sel hshape e' _ hme) hsbe harrow.2.1 harrow.2.2.1
      (by rw [show p + (inlineText L sel).length + 1 + 2 = p + (inlineText L sel).length + 1 + 1 + 1 by omega]
          exact harrow.2.2.2.1)
      hvs h125
    refine ⟨.select e' vs', ?_, by simp [Expr.mapS, hme, hmvs]⟩
    rw [hpl]
    congr 1
    omega

/-! ## placeable elements -/

theorem at_snoc_last {s : Src} {p : Nat} {pre : Bytes} {c : UInt8} (h : At s p (pre ++ [c])) :
    s[p + pre.length]? = some c := by
  rw [at_append] at h
  have := h.2
  simp only [at_cons] at this
  exact this.1

/-- `{ i }` for an inline expression that is not itself a placeable -/
theorem plRT_of_inlRT (L : Nat) (i : Inline Bytes) (h : InlRT L i) (hnp : ∀ e, i ≠ .placeable e)
    (hnt : ∀ a b c, i ≠ .term a (some b) c) : PlRT L (.inline i) := by
  have htxt : exprText L (.inline i) = 123 :: 32 :: (inlineText L i ++ [32, 125]) := by
    cases i with
    | placeable e => exact absurd rfl (hnp e)
    | _ => simp [exprText]
  have hser : ∀ w : Writer, serElement w (.placeable (.inline i)) =
      (serInline (w.writeLiteral [123, 32]) i).map fun w1 => w1.writeLiteral [32, 125] := by
    intro w
    cases i with
    | placeable e => exact absurd rfl (hnp e)
    | _ => simp [serElement]
  have hx := exprRT_inline L i h hnt
  refine ⟨by rw [htxt]; rfl, getLast?_of_snoc (pre := 123 :: 32 :: (inlineText L i ++ [32])) (by rw [htxt]; simp),
    fun w nl hw => ?_, fun s p n hs hat hn => ?_⟩
  · obtain ⟨hb1, hw1⟩ := wsc_writeTidy hw [123, 32] (by decide) (by decide)
    obtain ⟨w1, hs1, hb2, hw2⟩ := h.ser _ hw1
    obtain ⟨hb3, hw3⟩ := ws_writeTidy hw2 [32, 125] (by decide)
    refine ⟨w1.writeLiteral [32, 125], by rw [hser, hs1]; rfl, ?_, hw3⟩
    rw [hb3, hb2, hb1, htxt]
    apply Array.ext'
    simp
  · rw [htxt] at hat hn ⊢
    simp only [at_cons, List.length_cons, List.length_append, List.length_nil] at hat hn ⊢
    obtain ⟨b, hb, hnb⟩ := h.head
    obtain ⟨n1, n2, n3, _⟩ := (notBlank_iff b).mp hnb
    have hatI : At s (p + 1 + 1) (inlineText L i ++ [32, 125]) := hat.2.2
    have hb0 : s[p + 1 + 1]? = some b := by rw [at_append] at hatI; exact at_head hatI.1 hb
    have hsb : skipBlank s (p + 1) = p + 1 + 1 := by
      rw [skipBlank_space s (p + 1) hat.2.1]; exact skipBlank_at_byte s _ b hb0 n1 n2 n3
    obtain ⟨ex, hpl, hm⟩ := hx.parse s (p + 1) (p + 1 + 1) 1 n hs hsb
      (by simpa [innerText, spacesL] using hatI) (by simp only [innerText]; omega)
    refine ⟨ex, ?_, hm⟩
    rw [hpl]
    simp only [innerText]
    congr 1
    omega

/-- `{{ e }}` -/
theorem plRT_double (L : Nat) (e : Expr Bytes) (h : ExprRT L e) : PlRT L (.inline (.placeable e)) := by
  have htxt : exprText L (.inline (.placeable e)) = 123 :: 123 :: 32 :: (innerText L e ++ [32, 125, 125]) := by
    simp [exprText]
  refine ⟨by rw [htxt]; rfl,
    getLast?_of_snoc (pre := 123 :: 123 :: 32 :: (innerText L e ++ [32, 125])) (by rw [htxt]; simp),
    fun w nl hw => ?_, fun s p n hs hat hn => ?_⟩
  · obtain ⟨hb1, hw1⟩ := wsc_writeTidy hw [123, 123, 32] (by decide) (by decide)
    obtain ⟨w1, hs1, hb2, hw2⟩ := h.ser _ [32, 125, 125] hw1 (by decide)
    refine ⟨w1.writeLiteral [32, 125, 125], by simp [serElement, hs1, lit_dbl_lbrace, lit_dbl_rbrace], ?_, hw2⟩
    rw [hb2, hb1, htxt]
    apply Array.ext'
    simp
  · rw [htxt] at hat hn ⊢
    simp only [at_cons, List.length_cons, List.length_append, List.length_nil] at hat hn ⊢
    obtain ⟨h0, h1, h2, hatI⟩ := hat
    obtain ⟨b, hb, hnb⟩ := h.head
    obtain ⟨n1, n2, n3, _⟩ := (notBlank_iff b).mp hnb
    have hb0 : s[p + 1 + 1 + 1]? = some b := by rw [at_append] at hatI; exact at_head hatI.1 hb
    have hsb : skipBlank s (p + 1 + 1) = p + 1 + 1 + 1 := by
      rw [skipBlank_space s _ h2]; exact skipBlank_at_byte s _ b hb0 n1 n2 n3
    obtain ⟨k, rfl⟩ : ∃ k, n = k + 3 := ⟨n - 3, by omega⟩
    have hatI' : At s (p + 1 + 1 + 1) (innerText L e ++ spacesL 1 ++ [125]) ∧
        s[p + 1 + 1 + 1 + (innerText L e).length + 1 + 1]? = some 125 := by
      rw [at_append] at hatI
      obtain ⟨a, c⟩ := hatI
      simp only [at_cons] at c
      refine ⟨by rw [List.append_assoc, at_append]; exact ⟨a, by simp [spacesL, at_cons, c.1, c.2.1]⟩, c.2.2.1⟩
    obtain ⟨ex, hpl, hm⟩ := h.parse s (p + 1 + 1) (p + 1 + 1 + 1) 1 k hs hsb hatI'.1 (by omega)
    have hin : getInline s (k + 1) false (p + 1) =
        .ok (.placeable ex) (p + 1 + 1 + 1 + (innerText L e).length + 1 + 1) := by
      rw [getInline_brace s k (p + 1) h1, hpl]
    have hsb1 : skipBlank s (p + 1) = p + 1 := skipBlank_at_byte s _ 123 h1 (by decide) (by decide) (by decide)
    have hsb2 := skipBlank_at_byte s _ 125 hatI'.2 (by decide) (by decide) (by decide)
    refine ⟨.inline (.placeable ex), ?_, by simp [Expr.mapS, Inline.mapS, hm]⟩
    rw [getPlaceable_gen s (k + 1) (p + 1) (p + 1) _ _ _ hsb1 hin hsb2 hatI'.2 (by intro a b c h; cases h)]
    congr 1
    omega

/-- `{ sel -> … }` as a pattern element -/
theorem plRT_of_select (L : Nat) (sel : Inline Bytes) (vs : List (Variant Bytes)) (h : ExprRT L (.select sel vs)) :
    PlRT L (.select sel vs) := by
  have htxt : exprText L (.select sel vs) = 123 :: 32 :: (innerText L (.select sel vs) ++ [125]) := by
    simp [exprText, innerText]
  refine ⟨by rw [htxt]; rfl,
    getLast?_of_snoc (pre := 123 :: 32 :: innerText L (.select sel vs)) (by rw [htxt]; simp),
    fun w nl hw => ?_, fun s p n hs hat hn => ?_⟩
  · obtain ⟨hb1, hw1⟩ := wsc_writeTidy hw [123, 32] (by decide) (by decide)
    obtain ⟨w1, hs1, hb2, hw2⟩ := h.ser _ [125] hw1 (by decide)
    refine ⟨w1.writeLiteral [125], by simp [serElement, hs1], ?_, hw2⟩
    rw [hb2, hb1, htxt]
    apply Array.ext'
    simp
  · rw [htxt] at hat hn ⊢
    simp only [at_cons, List.length_cons, List.length_append, List.length_nil] at hat hn ⊢
    obtain ⟨h0, h1, hatI⟩ := hat
    obtain ⟨b, hb, hnb⟩ := h.head
    obtain ⟨n1, n2, n3, _⟩ := (notBlank_iff b).mp hnb
    have hb0 : s[p + 1 + 1]? = some b := by rw [at_append] at hatI; exact at_head hatI.1 hb
    have hsb : skipBlank s (p + 1) = p + 1 + 1 := by
      rw [skipBlank_space s _ h1]; exact skipBlank_at_byte s _ b hb0 n1 n2 n3
    obtain ⟨ex, hpl, hm⟩ := h.parse s (p + 1) (p + 1 + 1) 0 n hs hsb (by simpa [spacesL] using hatI) (by omega)
    refine ⟨ex, ?_, hm⟩
    rw [hpl]
    congr 1
    omega

end FluentProofs.Ser
