import FluentProofs.ParserLocalSimExprAux
/-!
# Locality of the parser, SIMULATION family, part 3: the six expression functions

`SSpecs N s₁ s₂ f`: under `Sim N s₁ s₂`, each of the eight mutually recursive functions, started at `p ≤ N` with the
same arguments and the same fuel `f` on both sources, returns the same outcome with a cursor `≤ N`, or — only if `N`
holds an entry head, not a `#` — both outcomes lie behind `N` (`SimR`).  This file has the step lemmas of the six
expression functions; `ParserLocalSimExpr2.lean` has the two pattern functions and the induction.
-/
namespace FluentProofs.Parser
open FluentModel.Syntax

section
variable {N : Nat} {s₁ s₂ : Src}

structure SSpecs (N : Nat) (s₁ s₂ : Src) (f : Nat) : Prop where
  patternLoop : ∀ st p, p ≤ N → (p = N → st.role = .lineStart) → PSn N st →
    SimR N (Hash s₁ N) (getPatternLoop s₁ f st p) (getPatternLoop s₂ f st p) ∧
      ∀ st' q, getPatternLoop s₁ f st p = .ok st' q → q ≤ N → PSn N st'
  pattern : ∀ p, p < N → SimR N (Hash s₁ N) (getPattern s₁ f p) (getPattern s₂ f p)
  placeable : ∀ p, p ≤ N → SimR N (Hash s₁ N) (getPlaceable s₁ f p) (getPlaceable s₂ f p)
  expression : ∀ p, p ≤ N → SimR N (Hash s₁ N) (getExpression s₁ f p) (getExpression s₂ f p)
  inline : ∀ ol p, p ≤ N → SimR N (Hash s₁ N) (getInline s₁ f ol p) (getInline s₂ f ol p)
  callArguments : ∀ p, p ≤ N → SimR N (Hash s₁ N) (getCallArguments s₁ f p) (getCallArguments s₂ f p)
  callArgsLoop : ∀ pos named p, p ≤ N → (∀ na ∈ named, na.1.stop ≤ N) →
    SimR N (Hash s₁ N) (getCallArgsLoop s₁ f pos named p) (getCallArgsLoop s₂ f pos named p)
  variants : ∀ hd acc p, p ≤ N → SimR N (Hash s₁ N) (getVariants s₁ f hd acc p) (getVariants s₂ f hd acc p)

/-- an optional byte that cannot stand at `N`, taken at or before `N`, leaves the cursor at or before `N` -/
theorem Sim.takeByteIf_le (h : Sim N s₁ s₂) {p : Nat} (hp : p ≤ N) {c : UInt8} (hc : wallByte c = false) :
    (takeByteIf s₁ p c).1 ≤ N := by
  rcases takeByteIf_cases s₁ p c with ⟨ht, hb⟩ | ⟨ht, _⟩ <;> rw [ht] <;> simp only []
  · have := h.lt_of_byte hp hb hc
    omega
  · exact hp

theorem placeable_sstep (h : Sim N s₁ s₂) {f : Nat} (IH : SSpecs N s₁ s₂ f) (p : Nat) (hp : p ≤ N) :
    SimR N (Hash s₁ N) (getPlaceable s₁ (f + 1) p) (getPlaceable s₂ (f + 1) p) := by
  have h0 := h.skipBlank_le hp
  rcases IH.expression _ h0 with ⟨hle, heq⟩ | ⟨hH, hp1, hp2⟩
  · simp only [getPlaceable]
    rw [skipBlank_sim h hp, heq]
    cases hr : getExpression s₁ f (skipBlank s₁ p) with
    | ok exp q =>
      rw [hr] at hle
      simp only [curLe_ok] at hle
      simp only []
      have h1 := h.skipBlankInline_le hle
      rw [skipBlankInline_sim h hle, expectByte_sim h h1]
      refine SimR.of_eq rfl ?_
      rcases expectByte_cases s₁ (skipBlankInline s₁ q) 125 with ⟨hx, hx'⟩ | ⟨hx, _⟩ <;> rw [hx] <;> simp only []
      · have := h.lt_of_byte h1 hx' (by decide)
        split <;> cur_close
      · cur_close
    | err e q => rw [hr] at hle; exact SimR.of_eq rfl hle
    | panic m => exact SimR.of_eq rfl trivial
    | fuel => exact SimR.of_eq rfl trivial
  · rw [← skipBlank_sim h hp] at hp2
    exact SimR.of_past hH (placeable_past hp1) (placeable_past hp2)

theorem expression_sstep (h : Sim N s₁ s₂) {f : Nat} (IH : SSpecs N s₁ s₂ f) (p : Nat) (hp : p ≤ N) :
    SimR N (Hash s₁ N) (getExpression s₁ (f + 1) p) (getExpression s₂ (f + 1) p) := by
  rcases IH.inline false p hp with ⟨hle, heq⟩ | ⟨hH, hp1, hp2⟩
  · simp only [getExpression]
    rw [heq]
    cases hr : getInline s₁ f false p with
    | ok exp q =>
      rw [hr] at hle
      simp only [curLe_ok] at hle
      simp only []
      have h1 := h.skipBlank_le hle
      rw [skipBlank_sim h hle]
      have hcond : (!(isCurrentByte s₂ (skipBlank s₁ q) 45) || !(s₂[skipBlank s₁ q + 1]? == some 62)) =
          (!(isCurrentByte s₁ (skipBlank s₁ q) 45) || !(s₁[skipBlank s₁ q + 1]? == some 62)) := by
        rw [h.cur h1]
        by_cases hq : skipBlank s₁ q < N
        · rw [h.get _ (by omega : skipBlank s₁ q + 1 ≤ N)]
        · have hqN : skipBlank s₁ q = N := by omega
          rw [hqN]
          cases hc : isCurrentByte s₁ N 45 with
          | false => rfl
          | true =>
            have h45 := (isCurrentByte_iff _ _ _).mp hc
            have a1 := beq_eq_false_iff_ne.mpr (h.t₁.no_arrow h45)
            have a2 := beq_eq_false_iff_ne.mpr (h.t₂.no_arrow (by rw [h.get N (Nat.le_refl _)]; exact h45))
            rw [a1, a2]
      rw [hcond]
      by_cases hc : (!(isCurrentByte s₁ (skipBlank s₁ q) 45) || !(s₁[skipBlank s₁ q + 1]? == some 62)) = true
      · simp only [if_pos hc]
        refine SimR.of_eq rfl ?_
        split <;> cur_close
      · simp only [if_neg hc]
        have hc' : s₁[skipBlank s₁ q]? = some 45 ∧ s₁[skipBlank s₁ q + 1]? = some 62 := by
          simpa [isCurrentByte_iff] using hc
        have h2 : skipBlank s₁ q < N := by
          by_cases hq : skipBlank s₁ q = N
          · rw [hq] at hc'; exact absurd hc'.2 (h.t₁.no_arrow hc'.1)
          · omega
        have h3 := h.lt_of_byte (by omega : skipBlank s₁ q + 1 ≤ N) hc'.2 (by decide)
        have h4 := h.skipBlankInline_le (by omega : skipBlank s₁ q + 2 ≤ N)
        rw [skipBlankInline_sim h (by omega : skipBlank s₁ q + 2 ≤ N), skipEol_sim h h4]
        split
        · exact SimR.of_eq rfl (by cur_close)
        · cases he : skipEol s₁ (skipBlankInline s₁ (skipBlank s₁ q + 2)) with
          | none => exact SimR.of_eq rfl h4
          | some q3 =>
            simp only []
            have h5 := h.skipEol_le h4 he
            rw [skipBlank_sim h h5]
            rcases IH.variants false [] _ (h.skipBlank_le h5) with ⟨hle', heq'⟩ | ⟨hH, hp1, hp2⟩
            · rw [heq']
              refine SimR.of_eq rfl ?_
              tail_close hle'
            · refine SimR.of_past hH ?_ ?_
              · tail_close hp1
              · tail_close hp2
    | err e q => rw [hr] at hle; exact SimR.of_eq rfl hle
    | panic m => exact SimR.of_eq rfl trivial
    | fuel => exact SimR.of_eq rfl trivial
  · exact SimR.of_past hH (expression_past hp1) (expression_past hp2)

theorem callArguments_sstep (h : Sim N s₁ s₂) {f : Nat} (IH : SSpecs N s₁ s₂ f) (p : Nat) (hp : p ≤ N) :
    SimR N (Hash s₁ N) (getCallArguments s₁ (f + 1) p) (getCallArguments s₂ (f + 1) p) := by
  have h1 := h.skipBlank_le hp
  rcases takeByteIf_cases s₁ (skipBlank s₁ p) 40 with ⟨ht, hb⟩ | ⟨ht, _⟩
  · have h2 := h.lt_of_byte h1 hb (by decide)
    have h3 := h.succ_lt h2 hb (by decide)
    have h4 := h.skipBlank_le (p := skipBlank s₁ p + 1) (by omega)
    rcases IH.callArgsLoop [] [] _ h4 (by simp) with ⟨hle, heq⟩ | ⟨hH, hp1, hp2⟩
    · simp only [getCallArguments]
      rw [skipBlank_sim h hp, takeByteIf_sim h h1, ht]
      simp only [Bool.not_true, Bool.false_eq_true, if_false]
      rw [skipBlank_sim h (by omega), heq]
      cases hr : getCallArgsLoop s₁ f [] [] (skipBlank s₁ (skipBlank s₁ p + 1)) with
      | ok v q =>
        obtain ⟨pos, named⟩ := v
        rw [hr] at hle
        simp only [curLe_ok] at hle
        simp only []
        rw [expectByte_sim h hle]
        refine SimR.of_eq rfl ?_
        rcases expectByte_cases s₁ q 41 with ⟨hx, hx'⟩ | ⟨hx, _⟩ <;> rw [hx] <;> simp only []
        · have := h.lt_of_byte hle hx' (by decide)
          cur_close
        · cur_close
      | err e q => rw [hr] at hle; exact SimR.of_eq rfl hle
      | panic m => exact SimR.of_eq rfl trivial
      | fuel => exact SimR.of_eq rfl trivial
    · have hb2 : s₂[skipBlank s₂ p]? = some 40 := by rw [skipBlank_sim h hp, h.get _ h1]; exact hb
      have e : skipBlank s₂ (skipBlank s₂ p + 1) = skipBlank s₁ (skipBlank s₁ p + 1) := by
        rw [skipBlank_sim h hp, skipBlank_sim h (by omega)]
      rw [← e] at hp2
      exact SimR.of_past hH (callArguments_past hb hp1) (callArguments_past hb2 hp2)
  · simp only [getCallArguments]
    rw [skipBlank_sim h hp, takeByteIf_sim h h1, ht]
    simp only [Bool.not_false, if_true]
    exact SimR.of_eq rfl h1

theorem argsNext_sim (h : Sim N s₁ s₂) {f : Nat} (IH : SSpecs N s₁ s₂ f) (pos : List (Inline Span))
    (named : List (Span × Inline Span)) {q : Nat} (hq : q ≤ N) (hn : ∀ na ∈ named, na.1.stop ≤ N) :
    SimR N (Hash s₁ N) (argsNext s₁ f pos named q) (argsNext s₂ f pos named q) := by
  unfold argsNext
  have h1 := h.skipBlank_le hq
  have h2 := h.takeByteIf_le h1 (c := 44) (by decide)
  rw [skipBlank_sim h hq, takeByteIf_sim h h1, skipBlank_sim h h2]
  exact IH.callArgsLoop _ _ _ (h.skipBlank_le h2) hn

theorem argsPos_sim (h : Sim N s₁ s₂) {f : Nat} (IH : SSpecs N s₁ s₂ f) (pos : List (Inline Span))
    (named : List (Span × Inline Span)) (expr : Inline Span) {q : Nat} (hq : q ≤ N) (hn : ∀ na ∈ named, na.1.stop ≤ N) :
    SimR N (Hash s₁ N) (argsPos s₁ f pos named expr q) (argsPos s₂ f pos named expr q) := by
  unfold argsPos
  by_cases hc : (!named.isEmpty) = true
  · simp only [if_pos hc]
    exact SimR.of_eq rfl hq
  · simp only [if_neg hc]
    exact argsNext_sim h IH _ _ hq hn

theorem argsVal_sim (h : Sim N s₁ s₂) {f : Nat} (IH : SSpecs N s₁ s₂ f) (pos : List (Inline Span))
    (named : List (Span × Inline Span)) (id : Span) (hn : ∀ na ∈ named, na.1.stop ≤ N) (hid : id.stop ≤ N)
    {r₁ r₂ : R (Inline Span)} (hk : SimR N (Hash s₁ N) r₁ r₂) :
    SimR N (Hash s₁ N) (argsVal s₁ f pos named id r₁) (argsVal s₂ f pos named id r₂) := by
  rcases hk with ⟨hle, rfl⟩ | ⟨hH, hp1, hp2⟩
  · cases r₂ with
    | ok val q3 =>
      refine argsNext_sim h IH _ _ hle ?_
      intro na hna
      simp only [List.mem_append, List.mem_singleton] at hna
      rcases hna with hna | rfl
      · exact hn na hna
      · exact hid
    | err e q => exact SimR.of_eq rfl hle
    | panic m => exact SimR.of_eq rfl trivial
    | fuel => exact SimR.of_eq rfl trivial
  · exact SimR.of_past hH (argsVal_past hp1) (argsVal_past hp2)

theorem argsNamed_sim (h : Sim N s₁ s₂) {f : Nat} (IH : SSpecs N s₁ s₂ f) (pos : List (Inline Span))
    (named : List (Span × Inline Span)) (id : Span) (hn : ∀ na ∈ named, na.1.stop ≤ N) (hid : id.stop ≤ N)
    {q1 : Nat} (hq : q1 + 1 ≤ N) :
    SimR N (Hash s₁ N) (argsNamed s₁ f pos named id q1) (argsNamed s₂ f pos named id q1) := by
  unfold argsNamed
  rw [named_any_sim h named id hn hid]
  by_cases hc : named.any (fun na => spanBytes s₁ na.1 == spanBytes s₁ id) = true
  · simp only [if_pos hc]
    exact SimR.of_eq rfl (by cur_close)
  · simp only [if_neg hc]
    rw [skipBlank_sim h hq]
    exact argsVal_sim h IH _ _ _ hn hid (IH.inline true _ (h.skipBlank_le hq))

theorem argsArg_sim (h : Sim N s₁ s₂) {f : Nat} (IH : SSpecs N s₁ s₂ f) (pos : List (Inline Span))
    (named : List (Span × Inline Span)) (hn : ∀ na ∈ named, na.1.stop ≤ N) {r₁ r₂ : R (Inline Span)}
    (hk : SimR N (Hash s₁ N) r₁ r₂) (hid : ∀ id q, r₁ = .ok (.msg id none) q → id.stop ≤ q) :
    SimR N (Hash s₁ N) (argsArg s₁ f pos named r₁) (argsArg s₂ f pos named r₂) := by
  rcases hk with ⟨hle, rfl⟩ | ⟨hH, hp1, hp2⟩
  · cases r₂ with
    | ok expr q =>
      simp only [curLe_ok] at hle
      have h1 := h.skipBlank_le hle
      by_cases hm : ∃ id, expr = .msg id none
      · obtain ⟨id, rfl⟩ := hm
        have hid' : id.stop ≤ N := by have := hid id q rfl; omega
        rw [argsArg_ok_msg, argsArg_ok_msg, skipBlank_sim h hle, h.cur h1]
        by_cases hc : isCurrentByte s₁ (skipBlank s₁ q) 58 = true
        · simp only [if_pos hc]
          have h2 := h.lt_of_byte h1 ((isCurrentByte_iff _ _ _).mp hc) (by decide)
          exact argsNamed_sim h IH _ _ _ hn hid' h2
        · simp only [if_neg hc]
          exact argsPos_sim h IH _ _ _ h1 hn
      · rw [argsArg_ok_other _ _ _ _ _ _ (fun id e => hm ⟨id, e⟩), argsArg_ok_other _ _ _ _ _ _ (fun id e => hm ⟨id, e⟩)]
        exact argsPos_sim h IH _ _ _ hle hn
    | err e q => exact SimR.of_eq rfl hle
    | panic m => exact SimR.of_eq rfl trivial
    | fuel => exact SimR.of_eq rfl trivial
  · exact SimR.of_past hH (argsArg_past hp1) (argsArg_past hp2)

theorem callArgsLoop_sstep (h : Sim N s₁ s₂) {f : Nat} (IH : SSpecs N s₁ s₂ f) (pos : List (Inline Span))
    (named : List (Span × Inline Span)) (p : Nat) (hp : p ≤ N) (hn : ∀ na ∈ named, na.1.stop ≤ N) :
    SimR N (Hash s₁ N) (getCallArgsLoop s₁ (f + 1) pos named p) (getCallArgsLoop s₂ (f + 1) pos named p) := by
  rw [getCallArgsLoop_succS, getCallArgsLoop_succS, if_pos (h.lt₁ hp), if_pos (h.lt₂ hp), h.cur hp]
  by_cases hc : isCurrentByte s₁ p 41 = true
  · simp only [if_pos hc]
    exact SimR.of_eq rfl hp
  · simp only [if_neg hc]
    exact argsArg_sim h IH pos named hn (IH.inline false p hp) (fun id q hr => pre_getInline_msg_stop hr)

theorem inline_sstep (h : Sim N s₁ s₂) {f : Nat} (IH : SSpecs N s₁ s₂ f) (ol : Bool) (p : Nat) (hp : p ≤ N) :
    SimR N (Hash s₁ N) (getInline s₁ (f + 1) ol p) (getInline s₂ (f + 1) ol p) := by
  by_cases hpN : p = N
  · -- at `N`: an entry head (both runs get past `N`) or a `#` (both fail at `N`)
    subst hpN
    obtain ⟨b, hb, hw⟩ := h.wall₁
    have hb2 : s₂[p]? = some b := by rw [h.get p (Nat.le_refl _)]; exact hb
    cases hr : isReal b with
    | true =>
      have hH : ¬ Hash s₁ p := by
        unfold Hash; rw [hb]; intro e; cases e; exact absurd hr (by decide)
      exact SimR.of_past hH (inline_past_real hb hr) (inline_past_real hb2 hr)
    | false =>
      have h35 : b = 35 := by simpa [wallByte, hr] using hw
      subst h35
      rw [inline_hash hb, inline_hash hb2]
      exact SimR.of_eq rfl (by split <;> cur_close)
  · have hlt : p < N := by omega
    simp only [getInline]
    rw [h.get p hp]
    have hfb : SimR N (Hash s₁ N)
        (if ol = true then (R.err (mkErr .expectedLiteral p) p : R (Inline Span)) else .err (mkErr .expectedInlineExpression p) p)
        (if ol = true then (R.err (mkErr .expectedLiteral p) p : R (Inline Span)) else .err (mkErr .expectedInlineExpression p) p) :=
      SimR.of_eq rfl (by split <;> cur_close)
    cases hb : s₁[p]? with
    | none => exact hfb
    | some b =>
      simp only []
      by_cases hc1 : (b == 34) = true
      · -- string literal
        simp only [if_pos hc1]
        have hp1 : p + 1 < N := h.succ_lt hlt hb (by intro e; subst e; exact absurd hc1 (by decide))
        obtain ⟨e1, e2⟩ := scanString_sim h hp1
        rw [e1]
        cases hs : scanString s₁ (p + 1) with
        | ok u q =>
          rw [hs] at e2
          simp only [curLe_ok] at e2
          simp only []
          rw [expectByte_sim h (by omega : q ≤ N)]
          rcases expectByte_cases s₁ q 34 with ⟨hx, _⟩ | ⟨hx, _⟩ <;> rw [hx] <;> simp only []
          · simp only [usub, show 1 ≤ q + 1 by omega, if_true, Nat.add_sub_cancel]
            rw [slice_sim h (p + 1) (by omega : q ≤ N)]
            refine SimR.of_eq rfl ?_
            split <;> cur_close
          · exact SimR.of_eq rfl (by cur_close)
        | err e q => rw [hs] at e2; exact SimR.of_eq rfl (by simp only [curLe_err] at e2 ⊢; omega)
        | panic m => exact SimR.of_eq rfl trivial
        | fuel => exact SimR.of_eq rfl trivial
      · simp only [if_neg hc1]
        have hnum : SimR N (Hash s₁ N)
            (match getNumberLiteral s₁ p with
              | .ok sp q => R.ok (Inline.num sp) q
              | .err e q => .err e q
              | .panic m => .panic m
              | .fuel => .fuel)
            (match getNumberLiteral s₂ p with
              | .ok sp q => R.ok (Inline.num sp) q
              | .err e q => .err e q
              | .panic m => .panic m
              | .fuel => .fuel) := by
          obtain ⟨e1, e2⟩ := getNumberLiteral_sim h hlt
          rw [e1]
          refine SimR.of_eq rfl ?_
          tail_close e2
        by_cases hc2 : isDigit b = true
        · simp only [if_pos hc2]
          exact hnum
        · simp only [if_neg hc2]
          by_cases hc3 : (b == 45) = true
          · simp only [if_pos hc3]
            have hp1 : p + 1 < N := h.succ_lt hlt hb (by intro e; subst e; exact absurd hc3 (by decide))
            rw [isIdentifierStart_sim h (by omega : p + 1 ≤ N)]
            by_cases hc4 : (!ol && isIdentifierStart s₁ (p + 1)) = true
            · -- term reference
              simp only [if_pos hc4]
              have hc4' : isIdentifierStart s₁ (p + 1) = true := by
                simp only [Bool.and_eq_true] at hc4; exact hc4.2
              obtain ⟨b1, hb1, hb1a⟩ := (isIdentifierStart_iff s₁ (p + 1)).mp hc4'
              have hp2 : p + 2 < N := h.succ_lt hp1 hb1 (by intro e; subst e; exact absurd hb1a (by decide))
              obtain ⟨e1, e2⟩ := getIdentifierUnchecked_sim h hp2
              rw [e1]
              cases hid : getIdentifierUnchecked s₁ (p + 2) with
              | ok id q =>
                obtain ⟨hq, _⟩ := e2 id q hid
                simp only []
                obtain ⟨a1, a2⟩ := getAttributeAccessor_sim h (by omega : q ≤ N)
                rw [a1]
                cases hat : getAttributeAccessor s₁ q with
                | ok attr q1 =>
                  rw [hat] at a2
                  simp only [curLe_ok] at a2
                  simp only []
                  rcases IH.callArguments q1 a2 with ⟨hle, heq⟩ | ⟨hH, hq1, hq2⟩
                  · rw [heq]
                    refine SimR.of_eq rfl ?_
                    tail_close hle
                  · refine SimR.of_past hH ?_ ?_
                    · tail_close hq1
                    · tail_close hq2
                | err e q1 => rw [hat] at a2; exact SimR.of_eq rfl a2
                | panic m => exact SimR.of_eq rfl trivial
                | fuel => exact SimR.of_eq rfl trivial
              | err e q => exact absurd hid getIdentifierUnchecked_not_err
              | panic m => exact SimR.of_eq rfl trivial
              | fuel => exact SimR.of_eq rfl trivial
            · simp only [if_neg hc4]
              exact hnum
          · simp only [if_neg hc3]
            by_cases hc5 : (b == 36 && !ol) = true
            · -- variable
              simp only [if_pos hc5]
              have hb36 : b = 36 := by
                simp only [Bool.and_eq_true, beq_iff_eq] at hc5; exact hc5.1
              have hp1 : p + 1 < N := h.succ_lt hlt hb (by rw [hb36]; decide)
              obtain ⟨e1, e2, _⟩ := getIdentifier_sim h hp1
              rw [e1]
              refine SimR.of_eq rfl ?_
              tail_close e2
            · simp only [if_neg hc5]
              by_cases hc6 : isAlpha b = true
              · -- message reference / function call
                simp only [if_pos hc6]
                have hp1 : p + 1 < N := h.succ_lt hlt hb (by intro e; subst e; exact absurd hc6 (by decide))
                obtain ⟨e1, e2⟩ := getIdentifierUnchecked_sim h hp1
                rw [e1]
                cases hid : getIdentifierUnchecked s₁ (p + 1) with
                | ok id q =>
                  obtain ⟨hq, hst⟩ := e2 id q hid
                  simp only []
                  rcases IH.callArguments q (by omega) with ⟨hle, heq⟩ | ⟨hH, hq1, hq2⟩
                  · rw [heq]
                    cases hca : getCallArguments s₁ f q with
                    | ok args q1 =>
                      rw [hca] at hle
                      simp only [curLe_ok] at hle
                      cases args with
                      | some pn =>
                        obtain ⟨pos, named⟩ := pn
                        simp only []
                        rw [isCallee_sim h (by omega : id.stop ≤ N)]
                        refine SimR.of_eq rfl ?_
                        split <;> cur_close
                      | none =>
                        simp only []
                        obtain ⟨a1, a2⟩ := getAttributeAccessor_sim h hle
                        rw [a1]
                        refine SimR.of_eq rfl ?_
                        tail_close a2
                    | err e q1 => rw [hca] at hle; exact SimR.of_eq rfl hle
                    | panic m => exact SimR.of_eq rfl trivial
                    | fuel => exact SimR.of_eq rfl trivial
                  · exact SimR.of_past hH (inlineCallee_past hq1) (inlineCallee_past hq2)
                | err e q => exact absurd hid getIdentifierUnchecked_not_err
                | panic m => exact SimR.of_eq rfl trivial
                | fuel => exact SimR.of_eq rfl trivial
              · simp only [if_neg hc6]
                by_cases hc7 : (b == 123 && !ol) = true
                · -- nested placeable
                  simp only [if_pos hc7]
                  rcases IH.placeable (p + 1) (by omega) with ⟨hle, heq⟩ | ⟨hH, hq1, hq2⟩
                  · rw [heq]
                    refine SimR.of_eq rfl ?_
                    tail_close hle
                  · refine SimR.of_past hH ?_ ?_
                    · tail_close hq1
                    · tail_close hq2
                · simp only [if_neg hc7]
                  exact hfb

theorem variantsTail_sim (h : Sim N s₁ s₂) {f : Nat} (IH : SSpecs N s₁ s₂ f) (hd' dflt : Bool) (acc : List (Variant Span))
    {r₁ r₂ : R (VKey Span)} (hk : SimR N (Hash s₁ N) r₁ r₂) :
    SimR N (Hash s₁ N) (variantsTail s₁ f hd' dflt acc r₁) (variantsTail s₂ f hd' dflt acc r₂) := by
  rcases hk with ⟨hle, rfl⟩ | ⟨hH, hp1, hp2⟩
  · cases r₂ with
    | ok key q =>
      simp only [curLe_ok] at hle
      simp only [variantsTail]
      have h1 := h.skipBlank_le hle
      rw [skipBlank_sim h hle, expectByte_sim h h1]
      rcases expectByte_cases s₁ (skipBlank s₁ q) 93 with ⟨hx, hx'⟩ | ⟨hx, _⟩ <;> rw [hx] <;> simp only []
      · have h2 := h.lt_of_byte h1 hx' (by decide)
        have h3 := h.succ_lt h2 hx' (by decide)
        rcases IH.pattern _ h3 with ⟨hle', heq'⟩ | ⟨hH, hp1, hp2⟩
        · rw [heq']
          cases hr : getPattern s₁ f (skipBlank s₁ q + 1) with
          | ok o q3 =>
            rw [hr] at hle'
            simp only [curLe_ok] at hle'
            cases o with
            | none => exact SimR.of_eq rfl hle'
            | some value =>
              simp only [variantsPat]
              rw [skipBlank_sim h hle']
              exact IH.variants _ _ _ (h.skipBlank_le hle')
          | err e q3 => rw [hr] at hle'; exact SimR.of_eq rfl hle'
          | panic m => exact SimR.of_eq rfl trivial
          | fuel => exact SimR.of_eq rfl trivial
        · exact SimR.of_past hH (variantsPat_past hp1) (variantsPat_past hp2)
      · exact SimR.of_eq rfl (by cur_close)
    | err e q => exact SimR.of_eq rfl hle
    | panic m => exact SimR.of_eq rfl trivial
    | fuel => exact SimR.of_eq rfl trivial
  · exact SimR.of_past hH (variantsTail_past hp1) (variantsTail_past hp2)

theorem variants_sstep (h : Sim N s₁ s₂) {f : Nat} (IH : SSpecs N s₁ s₂ f) (hd : Bool) (acc : List (Variant Span))
    (p : Nat) (hp : p ≤ N) :
    SimR N (Hash s₁ N) (getVariants s₁ (f + 1) hd acc p) (getVariants s₂ (f + 1) hd acc p) := by
  rw [getVariants_succS, getVariants_succS, takeByteIf_sim h hp]
  have h1 : (takeByteIf s₁ p 42).1 ≤ N := by
    rcases takeByteIf_cases s₁ p 42 with ⟨ht, hb⟩ | ⟨ht, _⟩ <;> rw [ht] <;> simp only []
    · have := h.lt_of_byte hp hb (by decide)
      omega
    · exact hp
  generalize takeByteIf s₁ p 42 = t at h1 ⊢
  obtain ⟨p1, dflt⟩ := t
  simp only [] at h1 ⊢
  unfold variantsBody
  rw [takeByteIf_sim h h1]
  by_cases hc : (dflt && hd) = true
  · simp only [if_pos hc]
    exact SimR.of_eq rfl h1
  · simp only [if_neg hc]
    rcases takeByteIf_cases s₁ p1 91 with ⟨ht, hb⟩ | ⟨ht, _⟩ <;> rw [ht] <;> simp only []
    · simp only [Bool.not_true, Bool.false_eq_true, if_false]
      have h2 := h.lt_of_byte h1 hb (by decide)
      rw [skipBlank_sim h (by omega : p1 + 1 ≤ N)]
      exact variantsTail_sim h IH _ _ _ (variantKey_simR h (h.skipBlank_le (by omega)))
    · simp only [Bool.not_false, if_true]
      refine SimR.of_eq rfl ?_
      (repeat' split) <;> cur_close

end

end FluentProofs.Parser
