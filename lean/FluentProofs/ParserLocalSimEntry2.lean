import FluentProofs.ParserLocalSimEntry
/-!
# Locality of the parser, SIMULATION family, part 5b: `get_entry` and junk recovery

A failing `get_comment` fails on its first line; a failing `get_entry` on `s₁` fails on `s₂` (`getEntry_err_sim`); junk
recovery ends at the same position (`junk_sim`); a failing attribute fails in both (`attr_sim`).
-/
namespace FluentProofs.Parser
open FluentModel.Syntax

section

/-! ## a failing `get_comment` fails on its first line -/

theorem getCommentLine_noErr (s : Src) (p : Nat) (e : PErr) (q : Nat) : getCommentLine s p ≠ .err e q := by
  unfold getCommentLine
  simp only []
  split <;> nofun

theorem getCommentGo_nonempty_noErr (s : Src) (k : Nat) : ∀ (level : Nat) (content : List Span) (p : Nat), content ≠ [] →
    ∀ e q, getCommentGo s k level content p ≠ .err e q := by
  induction k with
  | zero => intro level content p _ e q; simp [getCommentGo]
  | succ k ih =>
    intro level content p hc e q
    have hne : content.isEmpty = false := by cases content <;> simp_all
    have step : ∀ lv p2, (match getCommentLine s p2 with
        | .ok line q' => getCommentGo s k lv (content ++ [line]) ((skipEol s q').getD q')
        | .err e' q' => .err e' q'
        | .panic m => .panic m
        | .fuel => .fuel) ≠ .err e q := by
      intro lv p2
      cases hl : getCommentLine s p2 with
      | ok line q' => exact ih _ _ _ (by simp) e q
      | err e' q' => exact absurd hl (getCommentLine_noErr s p2 e' q')
      | panic m => nofun
      | fuel => nofun
    simp only [getCommentGo]
    split
    · split
      · split <;> nofun
      · split
        · split <;> nofun
        · split
          · exact step _ _
          · split
            · simp only [hne, Bool.false_eq_true, if_false]
              split <;> nofun
            · exact step _ _
            · nofun
            · nofun
    · nofun

/-- the first iteration of `get_comment` at a `#` -/
theorem getComment_first {s : Src} {p : Nat} (h35 : s[p]? = some 35) :
    getComment s p =
      if isEol s (getCommentLevel s p).2 then
        (match getCommentLine s (getCommentLevel s p).2 with
         | .ok line q => getCommentGo s (s.size - p) (getCommentLevel s p).1 [line] ((skipEol s q).getD q)
         | .err e q => .err e q
         | .panic m => .panic m
         | .fuel => .fuel)
      else
        (match expectByte s (getCommentLevel s p).2 32 with
         | .err e q => .err e q
         | .ok _ p2 =>
           (match getCommentLine s p2 with
            | .ok line q => getCommentGo s (s.size - p) (getCommentLevel s p).1 [line] ((skipEol s q).getD q)
            | .err e q => .err e q
            | .panic m => .panic m
            | .fuel => .fuel)
         | .panic m => .panic m
         | .fuel => .fuel) := by
  have hlt := get_lt h35
  obtain ⟨l, hl, hl3, hbytes, hl0⟩ := getCommentLevel_spec s p
  have hl1 : l ≠ 0 := fun h0 => hl0 h0 h35
  unfold getComment
  rw [show s.size - p + 1 = (s.size - p) + 1 by omega]
  simp only [getCommentGo, hlt, if_true]
  rw [hl]
  simp only [beq_iff_eq, hl1, if_false, bne_self_eq_false, Bool.false_and, Bool.false_eq_true, List.nil_append,
    List.isEmpty_nil, if_true]
  split
  · rfl
  · cases expectByte s (p + l) 32 <;> rfl

theorem getComment_err_of {s : Src} {p : Nat} (h35 : s[p]? = some 35) (h1 : isEol s (getCommentLevel s p).2 = false)
    (h2 : s[(getCommentLevel s p).2]? ≠ some 32) :
    getComment s p = .err (mkErr (.expectedToken 32) (getCommentLevel s p).2) (getCommentLevel s p).2 := by
  rw [getComment_first h35, h1]
  simp only [Bool.false_eq_true, if_false]
  rcases expectByte_cases s (getCommentLevel s p).2 32 with ⟨_, hb⟩ | ⟨hx, _⟩
  · exact absurd hb h2
  · rw [hx]

theorem getComment_err_inv {s : Src} {p : Nat} (h35 : s[p]? = some 35) {e : PErr} {q : Nat} (hr : getComment s p = .err e q) :
    isEol s (getCommentLevel s p).2 = false ∧ s[(getCommentLevel s p).2]? ≠ some 32 := by
  rw [getComment_first h35] at hr
  have hno : ∀ lv p2, (match getCommentLine s p2 with
      | .ok line q' => getCommentGo s (s.size - p) lv [line] ((skipEol s q').getD q')
      | .err e' q' => .err e' q'
      | .panic m => .panic m
      | .fuel => .fuel) ≠ .err e q := by
    intro lv p2
    cases hl : getCommentLine s p2 with
    | ok line q' => exact getCommentGo_nonempty_noErr s _ _ _ _ (by simp) e q
    | err e' q' => exact absurd hl (getCommentLine_noErr s p2 e' q')
    | panic m => nofun
    | fuel => nofun
  split at hr
  · exact absurd hr (hno _ _)
  · rename_i hE
    refine ⟨by simpa using hE, ?_⟩
    intro hb
    have hx : expectByte s (getCommentLevel s p).2 32 = .ok () ((getCommentLevel s p).2 + 1) := by
      simp [expectByte, isCurrentByte, hb]
    rw [hx] at hr
    exact absurd hr (hno _ _)

section
variable {N : Nat} {s₁ s₂ : Src}

theorem getCommentLevel_sim (h : Sim N s₁ s₂) {p : Nat} (hp : p < N) :
    getCommentLevel s₂ p = getCommentLevel s₁ p ∧ ((getCommentLevel s₁ p).1 ≠ 0 → (getCommentLevel s₁ p).2 < N) := by
  constructor
  · unfold getCommentLevel
    rw [h.cur (Nat.le_of_lt hp)]
    by_cases h0 : isCurrentByte s₁ p 35 = true
    · have hb0 := (isCurrentByte_iff _ _ _).mp h0
      have hp1 := h.succ_lt hp hb0 (by decide)
      rw [h.cur (Nat.le_of_lt hp1)]
      by_cases h1 : isCurrentByte s₁ (p + 1) 35 = true
      · have hb1 := (isCurrentByte_iff _ _ _).mp h1
        have hp2 : p + 2 < N := h.succ_lt hp1 hb1 (by decide)
        rw [h.cur (Nat.le_of_lt hp2)]
      · simp only [h1, Bool.false_eq_true, if_false]
    · simp only [h0, Bool.false_eq_true, if_false]
  · obtain ⟨l, hl, hl3, hbytes, hl0⟩ := getCommentLevel_spec s₁ p
    rw [hl]
    intro _
    have : ∀ j, j ≤ l → p + j < N := by
      intro j
      induction j with
      | zero => intro _; exact hp
      | succ j ih =>
        intro hj
        have := ih (by omega)
        exact h.succ_lt this (hbytes j (by omega)) (by decide)
    exact this l (Nat.le_refl _)

/-- a failing `get_entry` at a `#` fails in the same way on both sources -/
theorem getEntry_hash_sim (h : Sim N s₁ s₂) (F : Nat) {p : Nat} (hp : p < N) (h35 : s₁[p]? = some 35) {e : PErr} {q : Nat}
    (hr : getEntry s₁ F p = .err e q) : q < N ∧ getEntry s₂ F p = .err e q := by
  have h35' : s₂[p]? = some 35 := by rw [h.get p (Nat.le_of_lt hp)]; exact h35
  have hc : getComment s₁ p = .err e q := by
    unfold getEntry at hr
    simp only [h35] at hr
    cases hcm : getComment s₁ p with
    | ok v q' =>
      rw [hcm] at hr
      obtain ⟨content, level⟩ := v
      simp only [] at hr
      (repeat' split at hr) <;> cases hr
    | err e' q' => rw [hcm] at hr; simp only [] at hr; injection hr with a b; rw [a, b]
    | panic m => rw [hcm] at hr; cases hr
    | fuel => rw [hcm] at hr; cases hr
  obtain ⟨i1, i2⟩ := getComment_err_inv h35 hc
  obtain ⟨l1, l2⟩ := getCommentLevel_sim h hp
  have hlv : (getCommentLevel s₁ p).1 ≠ 0 := by
    obtain ⟨l, hl, _, _, hl0⟩ := getCommentLevel_spec s₁ p
    rw [hl]; exact fun h0 => hl0 h0 h35
  have hq1 := l2 hlv
  have e1 := getComment_err_of h35 i1 i2
  rw [e1] at hc
  injection hc with hc1 hc2
  have e2 : getComment s₂ p = .err (mkErr (.expectedToken 32) (getCommentLevel s₁ p).2) (getCommentLevel s₁ p).2 := by
    have := getComment_err_of (s := s₂) h35' (by rw [l1, isEol_sim h (Nat.le_of_lt hq1)]; exact i1)
      (by rw [l1, h.get _ (Nat.le_of_lt hq1)]; exact i2)
    rw [l1] at this
    exact this
  refine ⟨by omega, ?_⟩
  unfold getEntry
  simp only [h35', e2]
  rw [hc1, hc2]

/-- `get_entry` with any fuel `≥ exprFuel s` ends in `ok` or `err` -/
theorem getEntry_fin {s : Src} (hs : AsciiThenBoundary s) {F : Nat} (hF : exprFuel s ≤ F) {p : Nat} (hp : p < s.size) :
    Fin (getEntry s F p) := by
  have hg : Fin (getEntry s (exprFuel s) p) := by
    rcases getEntry_post hs p hp with ⟨e, he, _⟩ | hg
    · exact Or.inr ⟨e, p, he⟩
    · exact Fin.of_good hg
  have := getEntry_shift (shift_zero s) rfl hg.ne_fuel hF
  rw [Nat.add_zero] at this
  rw [this]; exact hg.shR

/-- **a failing `get_entry` on `s₁`, started before `N`, fails on `s₂`**: with the same error and cursor `≤ N`, or — only
when `N` holds an entry head — both cursors are behind `N` -/
theorem getEntry_err_sim (h : Sim N s₁ s₂) (hs₁ : AsciiThenBoundary s₁) (hs₂ : AsciiThenBoundary s₂) {F : Nat}
    (hF₁ : exprFuel s₁ ≤ F) (hF₂ : exprFuel s₂ ≤ F) {p : Nat} (hp : p < N) {e : PErr} {q : Nat}
    (hr : getEntry s₁ F p = .err e q) :
    (q ≤ N ∧ getEntry s₂ F p = .err e q) ∨
      (¬ Hash s₁ N ∧ N < q ∧ ∃ e' q', getEntry s₂ F p = .err e' q' ∧ N < q') := by
  by_cases h35 : s₁[p]? = some 35
  · obtain ⟨h1, h2⟩ := getEntry_hash_sim h F hp h35 hr
    exact Or.inl ⟨Nat.le_of_lt h1, h2⟩
  · have hget := h.get p (Nat.le_of_lt hp)
    have h35' : s₂[p]? ≠ some 35 := by rw [hget]; exact h35
    have hfin₂ := getEntry_fin hs₂ hF₂ (h.lt₂ (Nat.le_of_lt hp))
    -- the second alternative, from `Past` of the run on `s₂`
    have fromPast : ¬ Hash s₁ N → N < q → Past N (getEntry s₂ F p) →
        (¬ Hash s₁ N ∧ N < q ∧ ∃ e' q', getEntry s₂ F p = .err e' q' ∧ N < q') := by
      intro hH hq hp2
      obtain ⟨E₂, hb₂⟩ := h.t₂.bar (fun hh => hH (h.hash_iff.mp hh))
      obtain ⟨e', q', hr'⟩ := past_un_err hfin₂ hp2 (hb₂.getEntry_lt F hp)
      rw [hr'] at hp2
      exact ⟨hH, hq, e', q', hr', hp2⟩
    rw [getEntry_of_not_hash s₁ F p h35] at hr
    rw [getEntry_of_not_hash s₂ F p h35', hget] at fromPast ⊢
    by_cases h45 : s₁[p]? = some 45
    · simp only [h45, if_true] at hr fromPast ⊢
      rcases getTerm_simR h hs₁ hs₂ hF₁ hF₂ p hp with ⟨hle, heq⟩ | ⟨hH, hp1, hp2⟩
      · rw [heq]
        cases ht : getTerm s₁ F p p with
        | ok t' q' => rw [ht] at hr; cases hr
        | err e' q' =>
          rw [ht] at hr hle
          injection hr with a b
          subst a b
          exact Or.inl ⟨hle, rfl⟩
        | panic m => rw [ht] at hr; cases hr
        | fuel => rw [ht] at hr; cases hr
      · right
        cases ht : getTerm s₁ F p p with
        | ok t' q' => rw [ht] at hr; cases hr
        | err e' q' =>
          rw [ht] at hr hp1
          injection hr with a b
          subst a b
          refine fromPast hH hp1 ?_
          revert hp2
          cases getTerm s₂ F p p <;> exact fun hx => hx
        | panic m => rw [ht] at hr; cases hr
        | fuel => rw [ht] at hr; cases hr
    · simp only [h45, if_false] at hr fromPast ⊢
      rcases getMessage_simR h hs₁ hs₂ hF₁ hF₂ p hp with ⟨hle, heq⟩ | ⟨hH, hp1, hp2⟩
      · rw [heq]
        cases ht : getMessage s₁ F p p with
        | ok t' q' => rw [ht] at hr; cases hr
        | err e' q' =>
          rw [ht] at hr hle
          injection hr with a b
          subst a b
          exact Or.inl ⟨hle, rfl⟩
        | panic m => rw [ht] at hr; cases hr
        | fuel => rw [ht] at hr; cases hr
      · right
        cases ht : getMessage s₁ F p p with
        | ok t' q' => rw [ht] at hr; cases hr
        | err e' q' =>
          rw [ht] at hr hp1
          injection hr with a b
          subst a b
          refine fromPast hH hp1 ?_
          revert hp2
          cases getMessage s₂ F p p <;> exact fun hx => hx
        | panic m => rw [ht] at hr; cases hr
        | fuel => rw [ht] at hr; cases hr

/-! ## junk recovery -/

theorem rposNewlineGo_sim (h : Sim N s₁ s₂) (a k : Nat) : ∀ b, b ≤ N + 1 → rposNewlineGo s₂ a k b = rposNewlineGo s₁ a k b := by
  induction k with
  | zero => intro b _; rfl
  | succ k ih =>
    intro b hb
    simp only [rposNewlineGo]
    by_cases hgt : b > a
    · simp only [hgt, if_true]
      rw [h.get (b - 1) (by omega), ih (b - 1) (by omega)]
    · simp only [hgt, if_false]

theorem skipToNextEntryStartGo_sim (h : Sim N s₁ s₂) : ∀ (k₁ k₂ p : Nat), p ≤ N → N - p + 1 ≤ k₁ → N - p + 1 ≤ k₂ →
    skipToNextEntryStartGo s₂ k₂ p = skipToNextEntryStartGo s₁ k₁ p ∧ skipToNextEntryStartGo s₁ k₁ p ≤ N := by
  intro k₁
  induction k₁ with
  | zero => intro k₂ p hp h1 _; omega
  | succ k₁ ih =>
    intro k₂ p hp h1 h2
    obtain ⟨k₂, rfl⟩ : ∃ k, k₂ = k + 1 := ⟨k₂ - 1, by omega⟩
    simp only [skipToNextEntryStartGo]
    rw [h.get p hp, h.get (p - 1) (by omega)]
    cases hb : s₁[p]? with
    | none => exact ⟨rfl, hp⟩
    | some b =>
      simp only []
      by_cases hc : ((p == 0 || s₁[p - 1]? == some 10) && (isAlpha b || b == 45 || b == 35)) = true
      · simp only [hc, if_true]; exact ⟨trivial, hp⟩
      · simp only [hc, if_false, Bool.false_eq_true]
        have hpn : p ≠ N := by
          intro hpn
          subst hpn
          apply hc
          obtain ⟨b', hb', hw⟩ := h.wall₁
          rw [hb] at hb'; cases hb'
          have hnl : (p == 0 || s₁[p - 1]? == some 10) = true := by simp [h.nl]
          have hw' : (isAlpha b || b == 45 || b == 35) = true := by
            simpa [wallByte, isReal] using hw
          simp only [hnl, hw', Bool.and_self]
        exact ih k₂ (p + 1) (by omega) (by omega) (by omega)

theorem skipToNextEntryStart_sim (h : Sim N s₁ s₂) {p q : Nat} (hq : q ≤ N) :
    skipToNextEntryStart s₂ p q = skipToNextEntryStart s₁ p q ∧
      ∀ q1, skipToNextEntryStart s₁ p q = some q1 → q1 ≤ N := by
  have hlt₁ := h.lt₁ (Nat.le_refl N)
  have hlt₂ := h.lt₂ (Nat.le_refl N)
  unfold skipToNextEntryStart
  have m1 : min q s₁.size = q := by omega
  have m2 : min q s₂.size = q := by omega
  simp only [m1, m2]
  by_cases hle : p ≤ q
  · simp only [hle, if_true]
    have hr : rposNewline s₂ p q = rposNewline s₁ p q := by
      unfold rposNewline; exact rposNewlineGo_sim h p _ q (by omega)
    rw [hr]
    have key : ∀ p', p' ≤ N →
        skipToNextEntryStartGo s₂ (s₂.size - p') p' = skipToNextEntryStartGo s₁ (s₁.size - p') p' ∧
          skipToNextEntryStartGo s₁ (s₁.size - p') p' ≤ N :=
      fun p' hp' => skipToNextEntryStartGo_sim h _ _ p' hp' (by omega) (by omega)
    cases hnl : rposNewline s₁ p q with
    | none =>
      simp only []
      obtain ⟨k1, k2⟩ := key q hq
      rw [k1]
      exact ⟨rfl, fun q1 hq1 => by injection hq1 with hq1; omega⟩
    | some nl =>
      simp only []
      have := rposNewlineGo_some' hnl
      obtain ⟨k1, k2⟩ := key (nl + 1) (by omega)
      rw [k1]
      exact ⟨rfl, fun q1 hq1 => by injection hq1 with hq1; omega⟩
  · simp only [hle, if_false]
    exact ⟨trivial, fun q1 hq1 => by cases hq1⟩

end

/-- `rposition` finds the last line feed -/
theorem rposNewlineGo_eq_of {s : Src} {a nl : Nat} (h1 : a ≤ nl) (h10 : s[nl]? = some 10) :
    ∀ (k b : Nat), nl < b → (∀ j, nl < j → j < b → s[j]? ≠ some 10) → b - a ≤ k → rposNewlineGo s a k b = some nl := by
  intro k
  induction k with
  | zero => intro b h2 _ hk; omega
  | succ k ih =>
    intro b h2 hno hk
    simp only [rposNewlineGo]
    have hgt : b > a := by omega
    simp only [hgt, if_true]
    by_cases hb : s[b - 1]? == some 10
    · simp only [hb, if_true]
      have : b - 1 = nl := by
        apply Classical.byContradiction
        intro hne
        exact hno (b - 1) (by omega) (by omega) (by simpa using hb)
      rw [this]
    · simp only [hb, Bool.false_eq_true, if_false]
      have hne : b - 1 ≠ nl := by
        intro he; rw [he] at hb; simp [h10] at hb
      exact ih (b - 1) (by omega) (fun j hj1 hj2 => hno j hj1 (by omega)) (by omega)

/-- junk recovery after an error inside the entry head at `n` (in an entry started before `n`) stops at `n` exactly -/
theorem Bar.skipToNextEntryStart_eq {s : Src} {n E : Nat} (hb : Bar s n E) {p q : Nat} (hp : p < n) (h1 : n < q) (h2 : q ≤ E) :
    skipToNextEntryStart s p q = some n := by
  have hsz := hb.lt_size
  unfold skipToNextEntryStart
  have hmin : min q s.size = q := by omega
  simp only [hmin]
  have hle : p ≤ q := by omega
  simp only [hle, if_true]
  have hnl : rposNewline s p q = some (n - 1) := by
    unfold rposNewline
    refine rposNewlineGo_eq_of (by omega) (hb.nl hp) _ q (by omega) ?_ (Nat.le_refl _)
    intro j hj1 hj2 hj10
    have hjn : n ≤ j := by omega
    rcases hb.byte hjn (by omega) hj10 with hc | hc | hc
    · exact absurd hc (by decide)
    · exact absurd hc (by decide)
    · exact absurd hc (by decide)
  rw [hnl]
  simp only []
  rw [show n - 1 + 1 = n by omega]
  obtain ⟨b, hbn, hbr⟩ := hb.real
  have hk : s.size - n = (s.size - n - 1) + 1 := by have := hb.lt; omega
  rw [hk]
  simp only [skipToNextEntryStartGo, hbn]
  have hnl' : (n == 0 || s[n - 1]? == some 10) = true := by simp [hb.nl hp]
  simp only [hnl', isReal_entry hbr, Bool.and_self, if_true]

section
variable {N : Nat} {s₁ s₂ : Src}

/-- the cursor of an error outcome does not depend on the fuel -/
theorem getEntry_err_fuel {s : Src} {F₁ F₂ p : Nat} {e : PErr} {q : Nat} (hr : getEntry s F₁ p = .err e q) (hF : F₁ ≤ F₂) :
    ∃ e', getEntry s F₂ p = .err e' q := by
  have := getEntry_shift (shift_zero s) hr (by nofun) hF
  rw [Nat.add_zero] at this
  exact ⟨_, this⟩

/-- **junk recovery, two sources.**  A failing `get_entry` on `s₁` at `p < N`, whose junk recovery ends at `q1`: then
`q1 ≤ N`, and on `s₂` `get_entry` fails at `p`, too, and junk recovery ends at the same `q1`. -/
theorem junk_sim (h : Sim N s₁ s₂) (hs₁ : AsciiThenBoundary s₁) (hs₂ : AsciiThenBoundary s₂) {p : Nat} (hp : p < N)
    {e : PErr} {q q1 : Nat} (hr : getEntry s₁ (exprFuel s₁) p = .err e q) (hk : skipToNextEntryStart s₁ p q = some q1) :
    q1 ≤ N ∧ ∃ e' q', getEntry s₂ (exprFuel s₂) p = .err e' q' ∧ skipToNextEntryStart s₂ p q' = some q1 := by
  obtain ⟨e₁, hr₁⟩ := getEntry_err_fuel hr (Nat.le_max_left (exprFuel s₁) (exprFuel s₂))
  have down : ∀ e' q', getEntry s₂ (max (exprFuel s₁) (exprFuel s₂)) p = .err e' q' →
      ∃ e'', getEntry s₂ (exprFuel s₂) p = .err e'' q' := by
    intro e' q' he
    have hfin := getEntry_fin hs₂ (Nat.le_refl _) (h.lt₂ (Nat.le_of_lt hp))
    have := getEntry_shift (shift_zero s₂) rfl hfin.ne_fuel (Nat.le_max_right (exprFuel s₁) (exprFuel s₂))
    rw [Nat.add_zero, he] at this
    rcases hfin with ⟨a, q0, h0⟩ | ⟨e0, q0, h0⟩
    · rw [h0] at this; cases this
    · rw [h0] at this
      injection this with _ hq
      exact ⟨e0, by rw [h0, hq]; rfl⟩
  rcases getEntry_err_sim h hs₁ hs₂ (Nat.le_max_left _ _) (Nat.le_max_right _ _) hp hr₁ with ⟨hq, h2⟩ | ⟨hH, hq, e', q', h2, hq'⟩
  · obtain ⟨k1, k2⟩ := skipToNextEntryStart_sim h (p := p) hq
    obtain ⟨e'', h3⟩ := down _ _ h2
    exact ⟨k2 q1 hk, e'', q, h3, by rw [k1]; exact hk⟩
  · obtain ⟨E₁, hb₁⟩ := h.t₁.bar hH
    obtain ⟨E₂, hb₂⟩ := h.t₂.bar (fun hh => hH (h.hash_iff.mp hh))
    have hu₁ := hb₁.getEntry_lt (exprFuel s₁) hp
    rw [hr] at hu₁
    simp only [un_err] at hu₁
    have hu₂ := hb₂.getEntry_lt (max (exprFuel s₁) (exprFuel s₂)) hp
    rw [h2] at hu₂
    simp only [un_err] at hu₂
    have e1 := hb₁.skipToNextEntryStart_eq hp hq hu₁
    rw [e1] at hk
    injection hk with hk
    subst hk
    obtain ⟨e'', h3⟩ := down _ _ h2
    exact ⟨Nat.le_refl _, e'', q', h3, hb₂.skipToNextEntryStart_eq hp hq' hu₂⟩

/-- **a failing attribute, two sources** -/
theorem attr_sim (h : Sim N s₁ s₂) (_hs₁ : AsciiThenBoundary s₁) (hs₂ : AsciiThenBoundary s₂) {p : Nat} (hp : p < N)
    {e : PErr} {q : Nat} (hr : getAttribute s₁ (exprFuel s₁) p = .err e q) :
    ∃ e' q', getAttribute s₂ (exprFuel s₂) p = .err e' q' := by
  have hr₁ : ∃ e₁, getAttribute s₁ (max (exprFuel s₁) (exprFuel s₂)) p = .err e₁ q := by
    have := getAttribute_shift (shift_zero s₁) hr (by nofun) (Nat.le_max_left (exprFuel s₁) (exprFuel s₂))
    rw [Nat.add_zero] at this
    exact ⟨_, this⟩
  obtain ⟨e₁, hr₁⟩ := hr₁
  have hfin := getAttribute_fin hs₂ (Nat.le_refl _) (p := p) (Nat.le_of_lt (h.lt₂ (Nat.le_of_lt hp)))
  have hup := getAttribute_shift (shift_zero s₂) rfl hfin.ne_fuel (Nat.le_max_right (exprFuel s₁) (exprFuel s₂))
  rw [Nat.add_zero] at hup
  have hfinF := getAttribute_fin hs₂ (Nat.le_max_right (exprFuel s₁) (exprFuel s₂)) (p := p)
    (Nat.le_of_lt (h.lt₂ (Nat.le_of_lt hp)))
  -- the run on `s₂` with the large fuel is an error
  have herr : ∃ e' q', getAttribute s₂ (max (exprFuel s₁) (exprFuel s₂)) p = .err e' q' := by
    rcases getAttribute_simR h (max (exprFuel s₁) (exprFuel s₂)) hp with ⟨_, heq⟩ | ⟨hH, hp1, hp2⟩
    · exact ⟨e₁, q, by rw [heq, hr₁]⟩
    · obtain ⟨E₂, hb₂⟩ := h.t₂.bar (fun hh => hH (h.hash_iff.mp hh))
      exact past_un_err hfinF hp2 (hb₂.getAttribute_lt _ hp)
  obtain ⟨e', q', he'⟩ := herr
  rw [he'] at hup
  rcases hfin with ⟨a, q0, h0⟩ | ⟨e0, q0, h0⟩
  · rw [h0] at hup; cases hup
  · exact ⟨e0, q0, h0⟩

end

end

end FluentProofs.Parser
