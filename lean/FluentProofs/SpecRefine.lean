import FluentProofs.SpecLex
import FluentProofs.SpecDedent
import FluentProofs.ParserHoareExpr
import FluentProofs.SpecFuel
/-!
# Refinement: where the grammar accepts, the parser model returns the grammar's tree (C02, T2/T3)

Direction proved here: *the specification accepts ⇒ the parser model accepts, with the same tree (after
resolving spans and joining text) and the same rest*.  The converse is false (the parser is lenient on
inputs the grammar rejects, e.g. the optional comma between call arguments).
-/
namespace FluentProofs.SpecRefine
open FluentModel FluentModel.Syntax FluentModel.SpecGrammar FluentProofs.Parser FluentProofs.SpecLex

/-! ## positions and rests -/

theorem rest_length (s : Src) (p : Nat) : (rest s p).length = s.size - p := by simp [rest]

theorem rest_inj {s : Src} {p q : Nat} (hp : p ≤ s.size) (hq : q ≤ s.size) (h : rest s p = rest s q) : p = q := by
  have := congrArg List.length h
  simp only [rest_length] at this; omega

theorem rest_cons_inv {s : Src} {p : Nat} {b : UInt8} {t : List UInt8} (h : rest s p = b :: t) :
    s[p]? = some b ∧ t = rest s (p + 1) := by
  rcases rest_cases s p with ⟨_, h2⟩ | ⟨c, h1, h2⟩
  · rw [h2] at h; cases h
  · rw [h2] at h; injection h with h3 h4; subst h3; exact ⟨h1, h4.symm⟩

theorem rest_head {s : Src} {p : Nat} {b : UInt8} {t : List UInt8} (h : rest s p = b :: t) : s[p]? = some b :=
  (rest_cons_inv h).1

theorem rest_lt {s : Src} {p : Nat} {b : UInt8} {t : List UInt8} (h : rest s p = b :: t) : p < s.size :=
  get_lt (rest_head h)

/-! ## forward forms of the lexical theorems: the rule matches ⇒ the scanner returns exactly that -/

theorem identifier_fwd {s : Src} (hs : AsciiThenBoundary s) {p : Nat} {a : Bytes} {r : List UInt8}
    (h : identifier (rest s p) = some (a, r)) :
    ∃ q, getIdentifier s p = .ok ⟨p, q⟩ q ∧ p < q ∧ q ≤ s.size ∧ a = spanBytes s ⟨p, q⟩ ∧ r = rest s q ∧
      (∃ b, s[p]? = some b ∧ isAlpha b = true) := by
  have hT := identifier_eq_getIdentifier hs p
  have halpha : ∃ b, s[p]? = some b ∧ isAlpha b = true := by
    rcases rest_cases s p with ⟨_, h2⟩ | ⟨b, h1, h2⟩
    · rw [h2] at h; simp [identifier] at h
    · rw [h2] at h
      refine ⟨b, h1, ?_⟩
      simp only [identifier] at h
      split at h
      · rename_i hb; rw [isAlphaC_eq] at hb; exact hb
      · cases h
  have hgood := getIdentifier_good hs p (by obtain ⟨b, hb, _⟩ := halpha; have := get_lt hb; omega)
  rcases hr : getIdentifier s p with ⟨sp, q⟩ | ⟨e, q⟩ | m | _
  · rw [hr] at hT hgood
    obtain ⟨e1, e2, e3⟩ := hT
    rw [h] at e3
    injection e3 with e3; injection e3 with e4 e5
    subst e1
    have hq : q ≤ s.size := ((good_ok _ _ _ _ _).mp hgood).2.1
    exact ⟨q, rfl, e2, hq, e4, e5, halpha⟩
  · rw [hr] at hT; rw [h] at hT; cases hT
  · rw [hr] at hT; exact hT.elim
  · rw [hr] at hT; exact hT.elim


theorem getIdentifier_unchecked {s : Src} {p : Nat} {b : UInt8} (h : s[p]? = some b) (hb : isAlpha b = true) :
    getIdentifier s p = getIdentifierUnchecked s (p + 1) := by
  simp [getIdentifier, isIdentifierStart, h, hb]

theorem number_start_asc {s : Src} {p : Nat} {a : Bytes} {r : List UInt8}
    (h : numberLiteral (rest s p) = some (a, r)) :
    ∃ b, s[p]? = some b ∧ (isDigit b = true ∨ b = 45) := by
  rcases rest_cases s p with ⟨_, h2⟩ | ⟨c, g1, g2⟩
  · rw [h2] at h; simp [numberLiteral, numberAfterSign, digits] at h
  · refine ⟨c, g1, ?_⟩
    rw [g2] at h
    by_cases h45 : c = 45
    · exact Or.inr h45
    · left
      rw [numberLiteral_no_sign _ (by intro t ht; injection ht with hx _; exact h45 hx)] at h
      simp only [numberAfterSign, digits] at h
      by_cases hd : isDigitC c = true
      · rw [isDigitC_eq] at hd; exact hd
      · simp [List.takeWhile_cons, hd] at h

theorem number_fwd {s : Src} (hs : AsciiThenBoundary s) {p : Nat} {a : Bytes} {r : List UInt8}
    (h : numberLiteral (rest s p) = some (a, r)) (hdot : ∀ t, r ≠ 46 :: t) :
    ∃ q, getNumberLiteral s p = .ok ⟨p, q⟩ q ∧ p < q ∧ q ≤ s.size ∧ a = spanBytes s ⟨p, q⟩ ∧ r = rest s q := by
  obtain ⟨b, hb, hbd⟩ := number_start_asc h
  have hasc : Asc s p := ⟨b, hb, by rcases hbd with hd | rfl; exact isDigit_lt b hd; decide⟩
  have hT := numberLiteral_eq_getNumberLiteral hs p hasc.bnd
  have hgood := getNumberLiteral_good hs p hasc
  rcases hr : getNumberLiteral s p with ⟨sp, q⟩ | ⟨e, q⟩ | m | _
  · rw [hr] at hT hgood
    obtain ⟨e1, e2, e3⟩ := hT
    rw [h] at e3
    injection e3 with e3; injection e3 with e4 e5
    subst e1
    exact ⟨q, rfl, e2, ((good_ok _ _ _ _ _).mp hgood).2.1, e4, e5⟩
  · rw [hr] at hT
    rcases hT with hT | ⟨q', _, h46, hT⟩
    · rw [h] at hT; cases hT
    · rw [h] at hT
      injection hT with hT; injection hT with _ e5
      exact absurd (by rw [e5]; exact rest_cons h46) (hdot _)
  · rw [hr] at hT; exact hT.elim
  · rw [hr] at hT; exact hT.elim

/-- the string branch of `get_inline_expression` -/
theorem getInline_string {s : Src} (hs : AsciiThenBoundary s) (n : Nat) (ol : Bool) {p : Nat} {v : Bytes} {r : List UInt8}
    (h : stringLiteral (rest s p) = some (v, r)) :
    ∃ q, getInline s (n + 1) ol p = .ok (.str ⟨p + 1, q⟩) (q + 1) ∧ q + 1 ≤ s.size ∧
      spanBytes s ⟨p + 1, q⟩ = v ∧ r = rest s (q + 1) := by
  have h34 : s[p]? = some 34 := by
    rcases rest_cases s p with ⟨_, h2⟩ | ⟨c, g1, g2⟩
    · rw [h2] at h; simp [stringLiteral] at h
    · rw [g2] at h
      by_cases hc : c = 34
      · subst hc; exact g1
      · exfalso
        unfold stringLiteral at h
        split at h
        · rename_i heq; injection heq with hx _; exact hc hx
        · cases h
  have hlt := get_lt h34
  have hT := stringLiteral_eq_scanString hs p h34
  have hgood := scanString_good hs (p + 1) (by omega)
  rcases hr : scanString s (p + 1) with ⟨u, q⟩ | ⟨e, q⟩ | m | _
  · rw [hr] at hT hgood
    have hge : p + 1 ≤ q := ((good_ok _ _ _ _ _).mp hgood).1
    rcases hT with ⟨hq34, hT⟩ | ⟨_, hT⟩
    · rw [h] at hT
      injection hT with hT; injection hT with e4 e5
      have hqlt := get_lt hq34
      refine ⟨q, ?_, by omega, by rw [spanBytes_eq_seg, e4], e5⟩
      have hb1 : Bnd s (p + 1) := bnd_succ hs h34 (by decide)
      have hbq : Bnd s q := bnd_of_ascii hq34 (by decide)
      have hsl : slice s (p + 1) q = some ⟨p + 1, q⟩ := slice_ok hge hb1 hbq
      simp [getInline, h34, hr, expectByte, isCurrentByte, hq34, usub, hsl]
    · rw [h] at hT; cases hT
  · rw [hr] at hT; rw [h] at hT; cases hT
  · rw [hr] at hT; exact hT.elim
  · rw [hr] at hT; exact hT.elim


/-! ## resolved and joined trees -/

def jI (s : Src) (e : Inline Span) : Inline Bytes := (Inline.mapS (spanBytes s) e).joinText
def jE (s : Src) (e : Expr Span) : Expr Bytes := (Expr.mapS (spanBytes s) e).joinText
def jInl (s : Src) (l : List (Inline Span)) : List (Inline Bytes) := joinInl (mapInl (spanBytes s) l)
def jNamed (s : Src) (l : List (Span × Inline Span)) : List (Bytes × Inline Bytes) := joinNamed (mapNamed (spanBytes s) l)
def jV (s : Src) (v : Variant Span) : Variant Bytes := (Variant.mapS (spanBytes s) v).joinText
def jVars (s : Src) (l : List (Variant Span)) : List (Variant Bytes) := joinVariants (mapVariants (spanBytes s) l)
def jPat (s : Src) (l : List (PatElem Span)) : List (PatElem Bytes) := joinPat (mapPat (spanBytes s) l)

theorem jInl_nil (s : Src) : jInl s [] = [] := by simp [jInl, mapInl, joinInl]
theorem jNamed_nil (s : Src) : jNamed s [] = [] := by simp [jNamed, mapNamed, joinNamed]
theorem jVars_nil (s : Src) : jVars s [] = [] := by simp [jVars, mapVariants, joinVariants]

theorem jInl_cons (s : Src) (x : Inline Span) (l : List (Inline Span)) : jInl s (x :: l) = jI s x :: jInl s l := by
  simp [jInl, jI, mapInl, joinInl]
theorem jNamed_cons (s : Src) (n : Span) (x : Inline Span) (l : List (Span × Inline Span)) :
    jNamed s ((n, x) :: l) = (spanBytes s n, jI s x) :: jNamed s l := by
  simp [jNamed, jI, mapNamed, joinNamed]
theorem jVars_cons (s : Src) (v : Variant Span) (l : List (Variant Span)) : jVars s (v :: l) = jV s v :: jVars s l := by
  simp [jVars, jV, mapVariants, joinVariants]

theorem jInl_append (s : Src) (l : List (Inline Span)) (x : Inline Span) : jInl s (l ++ [x]) = jInl s l ++ [jI s x] := by
  induction l with
  | nil => simp [jInl_cons, jInl_nil]
  | cons a t ih => simp [jInl_cons, ih]
theorem jNamed_append (s : Src) (l : List (Span × Inline Span)) (n : Span) (x : Inline Span) :
    jNamed s (l ++ [(n, x)]) = jNamed s l ++ [(spanBytes s n, jI s x)] := by
  induction l with
  | nil => simp [jNamed_cons, jNamed_nil]
  | cons a t ih => obtain ⟨a1, a2⟩ := a; simp [jNamed_cons, ih]
theorem jVars_append (s : Src) (l : List (Variant Span)) (v : Variant Span) : jVars s (l ++ [v]) = jVars s l ++ [jV s v] := by
  induction l with
  | nil => simp [jVars_cons, jVars_nil]
  | cons a t ih => simp [jVars_cons, ih]
theorem jVars_append2 (s : Src) (l l2 : List (Variant Span)) : jVars s (l ++ l2) = jVars s l ++ jVars s l2 := by
  induction l with
  | nil => simp [jVars_nil]
  | cons a t ih => simp [jVars_cons, ih]

theorem jI_str (s : Src) (sp : Span) : jI s (.str sp) = .str (spanBytes s sp) := by simp [jI, Inline.mapS, Inline.joinText]
theorem jI_num (s : Src) (sp : Span) : jI s (.num sp) = .num (spanBytes s sp) := by simp [jI, Inline.mapS, Inline.joinText]
theorem jI_var (s : Src) (sp : Span) : jI s (.var sp) = .var (spanBytes s sp) := by simp [jI, Inline.mapS, Inline.joinText]
theorem jI_msg (s : Src) (sp : Span) (a : Option Span) : jI s (.msg sp a) = .msg (spanBytes s sp) (a.map (spanBytes s)) := by
  simp [jI, Inline.mapS, Inline.joinText]
theorem jI_fn (s : Src) (sp : Span) (pos : List (Inline Span)) (named : List (Span × Inline Span)) :
    jI s (.fn sp pos named) = .fn (spanBytes s sp) (jInl s pos) (jNamed s named) := by
  simp [jI, jInl, jNamed, Inline.mapS, Inline.joinText]
theorem jI_term_none (s : Src) (sp : Span) (a : Option Span) : jI s (.term sp a none) = .term (spanBytes s sp) (a.map (spanBytes s)) none := by
  simp [jI, Inline.mapS, Inline.joinText]
theorem jI_term_some (s : Src) (sp : Span) (a : Option Span) (pos : List (Inline Span)) (named : List (Span × Inline Span)) :
    jI s (.term sp a (some (pos, named))) = .term (spanBytes s sp) (a.map (spanBytes s)) (some (jInl s pos, jNamed s named)) := by
  simp [jI, jInl, jNamed, Inline.mapS, Inline.joinText]
theorem jI_placeable (s : Src) (e : Expr Span) : jI s (.placeable e) = .placeable (jE s e) := by
  simp [jI, jE, Inline.mapS, Inline.joinText]
theorem jE_inline (s : Src) (e : Inline Span) : jE s (.inline e) = .inline (jI s e) := by
  simp [jE, jI, Expr.mapS, Expr.joinText]
theorem jE_select (s : Src) (e : Inline Span) (vs : List (Variant Span)) : jE s (.select e vs) = .select (jI s e) (jVars s vs) := by
  simp [jE, jI, jVars, Expr.mapS, Expr.joinText]
theorem jV_mk (s : Src) (k : VKey Span) (p : List (PatElem Span)) (d : Bool) :
    jV s (.mk k p d) = .mk (k.mapS (spanBytes s)) (jPat s p) d := by
  simp [jV, jPat, Variant.mapS, Variant.joinText]

/-! ## what may follow an inline expression -/

/-- after an inline expression every context of the grammar continues with `blank?` and one of `}` `,` `)`
`->`; all that matters here is that it is none of `(` `:` `.` -/
def Follow (r : List UInt8) : Prop := ∃ b t, blankOpt r = b :: t ∧ b ≠ 40 ∧ b ≠ 58 ∧ b ≠ 46


theorem blankOpt_idem (i : List UInt8) : blankOpt (blankOpt i) = blankOpt i := by
  fun_induction blankOpt i <;> simp_all [blankOpt]
  all_goals (rename_i h1 h2 h3; unfold blankOpt; split <;> simp_all)


theorem skipBlank_le_size {s : Src} {p : Nat} (hp : p ≤ s.size) : skipBlank s p ≤ s.size :=
  (skipBlank_after s p).le_size hp

theorem skipBlank_ge (s : Src) (p : Nat) : p ≤ skipBlank s p := (skipBlank_after s p).le

theorem skipBlank_idem (s : Src) (p : Nat) (hp : p ≤ s.size) : skipBlank s (skipBlank s p) = skipBlank s p := by
  apply rest_inj (skipBlank_le_size (skipBlank_le_size hp)) (skipBlank_le_size hp)
  rw [← blankOpt_eq_skipBlank, ← blankOpt_eq_skipBlank, blankOpt_idem]

/-- `Follow` at a cursor: the first non-blank byte is none of `(` `:` `.` -/
theorem follow_at {s : Src} {q : Nat} (h : Follow (rest s q)) :
    ∃ b, s[skipBlank s q]? = some b ∧ b ≠ 40 ∧ b ≠ 58 ∧ b ≠ 46 := by
  obtain ⟨b, t, h1, h2⟩ := h
  rw [blankOpt_eq_skipBlank] at h1
  exact ⟨b, rest_head h1, h2⟩

theorem follow_of_blank {r r' : List UInt8} (h : blankOpt r = blankOpt r') (hf : Follow r) : Follow r' := by
  obtain ⟨b, t, h1, h2⟩ := hf
  exact ⟨b, t, by rw [← h]; exact h1, h2⟩

theorem follow_not_dot {r : List UInt8} (h : Follow r) : ∀ t, r ≠ 46 :: t := by
  intro t ht
  obtain ⟨b, t', h1, _, _, h4⟩ := h
  rw [ht] at h1
  have : blankOpt (46 :: t) = 46 :: t := blankOpt_other _ (by decide) (by decide) (by decide)
  rw [this] at h1
  injection h1 with h1 _
  exact h4 h1.symm

theorem getCallArguments_none {s : Src} (n p : Nat) (hn : 0 < n) (h : s[skipBlank s p]? ≠ some 40) :
    getCallArguments s n p = .ok none (skipBlank s p) := by
  obtain ⟨n', rfl⟩ : ∃ n', n = n' + 1 := ⟨n - 1, by omega⟩
  have : isCurrentByte s (skipBlank s p) 40 = false := by
    simp only [isCurrentByte]; simpa using h
  simp [getCallArguments, takeByteIf, this]

theorem getAttributeAccessor_none {s : Src} (p : Nat) (h : s[p]? ≠ some 46) : getAttributeAccessor s p = .ok none p := by
  have : isCurrentByte s p 46 = false := by simp only [isCurrentByte]; simpa using h
  simp [getAttributeAccessor, takeByteIf, this]

theorem getAttributeAccessor_some {s : Src} (hs : AsciiThenBoundary s) {p : Nat} {a : Bytes} {r : List UInt8}
    (h46 : s[p]? = some 46) (h : identifier (rest s (p + 1)) = some (a, r)) :
    ∃ q, getAttributeAccessor s p = .ok (some ⟨p + 1, q⟩) q ∧ q ≤ s.size ∧ a = spanBytes s ⟨p + 1, q⟩ ∧ r = rest s q := by
  obtain ⟨q, h1, _, h3, h4, h5, _⟩ := identifier_fwd hs h
  have : isCurrentByte s p 46 = true := by simp [isCurrentByte, h46]
  exact ⟨q, by simp [getAttributeAccessor, takeByteIf, this, h1], h3, h4, h5⟩

theorem alpha_facts : ∀ b : UInt8, isAlpha b = true →
    (b == 34) = false ∧ isDigit b = false ∧ (b == 45) = false ∧ (b == 36) = false ∧ (b == 123) = false := by
  apply forall_uint8; decide +kernel

theorem digit_facts : ∀ b : UInt8, isDigit b = true → (b == 34) = false := by
  apply forall_uint8; decide +kernel

/-- the AttributeAccessor? of the grammar against `get_attribute_accessor` at the same cursor; a `.` that
is not followed by an identifier is left in place by the grammar and is an error for the parser -/
theorem attributeAccessor_fwd {s : Src} (hs : AsciiThenBoundary s) (q : Nat) (hq : q ≤ s.size)
    (hnd : ∀ t, (attributeAccessorOpt (rest s q)).2 ≠ 46 :: t) :
    ∃ attr q', getAttributeAccessor s q = .ok attr q' ∧ q' ≤ s.size ∧ q ≤ q' ∧
      (attributeAccessorOpt (rest s q)).1 = attr.map (spanBytes s) ∧
      (attributeAccessorOpt (rest s q)).2 = rest s q' ∧ (attr = none → q' = q ∧ s[q]? ≠ some 46) := by
  by_cases h46 : s[q]? = some 46
  · have hr := rest_cons h46
    rw [hr] at hnd ⊢
    simp only [attributeAccessorOpt] at hnd ⊢
    cases hid : identifier (rest s (q + 1)) with
    | none => rw [hid] at hnd; exact absurd rfl (hnd _)
    | some ar =>
      obtain ⟨a, r⟩ := ar
      obtain ⟨q', g1, g2, g3, g4⟩ := getAttributeAccessor_some hs h46 hid
      obtain ⟨_, _, hlt, _⟩ := identifier_fwd hs hid
      have : q + 1 < q' := by
        obtain ⟨q2, e1, e2, _, _, e5, _⟩ := identifier_fwd hs hid
        have := rest_inj (s := s) (p := q2) (q := q') (by omega) g2 (by rw [← e5, g4])
        omega
      exact ⟨some ⟨q + 1, q'⟩, q', g1, g2, by omega, by simp [g3], g4, by intro h; cases h⟩
  · have hno : ∀ t, rest s q ≠ 46 :: t := fun t ht => h46 (rest_head ht)
    have : attributeAccessorOpt (rest s q) = (none, rest s q) := by
      unfold attributeAccessorOpt
      split
      · rename_i r heq; exact absurd heq (hno r)
      · rfl
    rw [this]
    exact ⟨none, q, getAttributeAccessor_none q h46, hq, Nat.le_refl _, rfl, rfl, fun _ => ⟨rfl, h46⟩⟩


/-! ## the refinement statements, one per production (spec fuel `m`, any sufficient parser fuel `n`) -/

def InlineRef (s : Src) (m : Nat) : Prop :=
  ∀ n p x r, inlineExpression m (rest s p) = .ok x r → Follow r → p ≤ s.size → 4 * (s.size - p) + 1 ≤ n →
    ∃ e q, getInline s n false p = .ok e q ∧ jI s e = x ∧ q ≤ s.size ∧ blankOpt r = blankOpt (rest s q)

def PlaceableRef (s : Src) (m : Nat) : Prop :=
  ∀ n p x r, inlinePlaceable m (rest s p) = .ok x r → 4 * (s.size - (p + 1)) + 3 ≤ n →
    ∃ e q, getPlaceable s n (p + 1) = .ok e q ∧ jE s e = x ∧ q ≤ s.size ∧ r = rest s q

def CallArgsRef (s : Src) (m : Nat) : Prop :=
  ∀ n p pos named r, callArguments m (rest s p) = .ok (pos, named) r → p ≤ s.size → 4 * (s.size - p) + 1 ≤ n →
    ∃ pos' named' q, getCallArguments s n p = .ok (some (pos', named')) q ∧ jInl s pos' = pos ∧
      jNamed s named' = named ∧ q ≤ s.size ∧ r = rest s q

theorem inlinePlaceable_head {m : Nat} {i : List UInt8} {x : Expr Bytes} {r : List UInt8}
    (h : inlinePlaceable m i = .ok x r) : ∃ t, i = 123 :: t := by
  cases m with
  | zero => simp [inlinePlaceable] at h
  | succ m =>
    simp only [inlinePlaceable] at h
    split at h
    · rename_i t; exact ⟨t, rfl⟩
    · cases h

theorem digit_not_alpha : ∀ c : UInt8, isDigit c = true → isAlpha c = false := by
  apply forall_uint8; decide +kernel

theorem number_sign_next {s : Src} {p : Nat} {a : Bytes} {r : List UInt8} (h45 : s[p]? = some 45)
    (h : numberLiteral (rest s p) = some (a, r)) : isIdentifierStart s (p + 1) = false := by
  rw [rest_cons h45] at h
  simp only [numberLiteral] at h
  rcases rest_cases s (p + 1) with ⟨g1, g2⟩ | ⟨c, g1, g2⟩
  · simp [isIdentifierStart, g1]
  · rw [g2] at h
    simp only [numberAfterSign, digits] at h
    by_cases hd : isDigitC c = true
    · rw [isDigitC_eq] at hd
      have := digit_not_alpha c hd
      simp [isIdentifierStart, g1, this]
    · simp [hd] at h


theorem seg_head {s : Src} {p q : Nat} {b : UInt8} (h : s[p]? = some b) (hq : p < q) :
    spanBytes s ⟨p, q⟩ = b :: seg s (p + 1) q := by
  rw [spanBytes_eq_seg, seg_cons h hq]

/-- InlineExpression: every alternative of the grammar's ordered choice is the branch `get_inline_expression`
takes on the first byte -/
theorem inline_step {s : Src} (hs : AsciiThenBoundary s) {m : Nat} (hca : CallArgsRef s m) (hpl : PlaceableRef s m) :
    InlineRef s (m + 1) := by
  intro n p x r hI hF hp hn
  obtain ⟨n', rfl⟩ : ∃ n', n = n' + 1 := ⟨n - 1, by omega⟩
  simp only [inlineExpression] at hI
  split at hI
  · -- StringLiteral
    rename_i v r' hsl
    injection hI with e1 e2; subst e1; subst e2
    obtain ⟨q, g1, g2, g3, g4⟩ := getInline_string hs n' false hsl
    exact ⟨_, _, g1, by rw [jI_str, g3], g2, by rw [g4]⟩
  · split at hI
    · -- NumberLiteral
      rename_i v r' hnl
      injection hI with e1 e2; subst e1; subst e2
      obtain ⟨q, g1, g2, g3, g4, g5⟩ := number_fwd hs hnl (follow_not_dot hF)
      obtain ⟨b, hb, hbd⟩ := number_start_asc hnl
      have hgi : getInline s (n' + 1) false p = .ok (.num ⟨p, q⟩) q := by
        rcases hbd with hd | rfl
        · simp [getInline, hb, digit_facts b hd, hd, g1]
        · have := number_sign_next hb hnl
          have h1 : ((45 : UInt8) == 34) = false := by decide
          have h2 : isDigit 45 = false := by decide
          simp [getInline, hb, this, g1, h1, h2]
      exact ⟨_, _, hgi, by rw [jI_num, g4], g3, by rw [g5]⟩
    · split at hI
      · -- FunctionReference
        rename_i e r' hfn
        injection hI with e1 e2; subst e1; subst e2
        split at hfn
        · rename_i id r0 hid
          obtain ⟨q0, i1, i2, i3, i4, i5, b, hb, hba⟩ := identifier_fwd hs hid
          cases hc : callArguments m r0 with
          | ok pn r2 =>
            obtain ⟨pos, named⟩ := pn
            rw [hc] at hfn; simp only at hfn
            split at hfn
            · rename_i hcal
              injection hfn with e1 e2; subst e1; subst e2
              rw [i5] at hc
              obtain ⟨pos', named', q1, c1, c2, c3, c4, c5⟩ := hca n' q0 pos named _ hc i3 (by omega)
              obtain ⟨f1, f2, f3, f4, f5⟩ := alpha_facts b hba
              have hcallee : isCallee s ⟨p, q0⟩ = true := by
                rw [← calleeOk_eq_isCallee s ⟨p, q0⟩ b _ (seg_head hb i2) hba, ← i4]; exact hcal
              have hgi : getInline s (n' + 1) false p = .ok (.fn ⟨p, q0⟩ pos' named') q1 := by
                rw [getIdentifier_unchecked hb hba] at i1
                simp [getInline, hb, f1, f2, f3, f4, hba, i1, c1, hcallee]
              exact ⟨_, _, hgi, by rw [jI_fn, c2, c3, ← i4], c4, by rw [c5]⟩
            · cases hfn
          | fail => rw [hc] at hfn; cases hfn
          | fuel => rw [hc] at hfn; cases hfn
        · cases hfn
      · cases hI
      · rename_i hfn
        split at hI
        · -- MessageReference
          rename_i id r0 hid
          obtain ⟨q0, i1, i2, i3, i4, i5, b, hb, hba⟩ := identifier_fwd hs hid
          obtain ⟨f1, f2, f3, f4, f5⟩ := alpha_facts b hba
          rw [getIdentifier_unchecked hb hba] at i1
          injection hI with e1 e2; subst e1; subst e2
          rw [i5] at hF ⊢
          have hnd : ∀ t, (attributeAccessorOpt (rest s q0)).2 ≠ 46 :: t := follow_not_dot hF
          obtain ⟨attr, q', a1, a2, a3, a4, a5, a6⟩ := attributeAccessor_fwd hs q0 i3 hnd
          -- no `(` after the identifier (and the blank the parser skips)
          have hnp : s[skipBlank s q0]? ≠ some 40 ∧ (attr = none → s[skipBlank s q0]? ≠ some 46) ∧
              (attr ≠ none → skipBlank s q0 = q0) := by
            cases hattr : attr with
            | none =>
              obtain ⟨e1, e2⟩ := a6 hattr
              rw [a5, e1] at hF
              obtain ⟨c, g1, g2, g3, g4⟩ := follow_at hF
              exact ⟨(by rw [g1]; simpa using g2), (fun _ => by rw [g1]; simpa using g4), (fun h => absurd rfl h)⟩
            | some a =>
              have h46 : s[q0]? = some 46 := by
                by_cases h : s[q0]? = some 46
                · exact h
                · rw [hattr, getAttributeAccessor_none q0 h] at a1; cases a1
              have hsk : skipBlank s q0 = q0 := by
                apply rest_inj (skipBlank_le_size i3) i3
                rw [← blankOpt_eq_skipBlank, rest_cons h46]
                exact blankOpt_other _ (by decide) (by decide) (by decide)
              exact ⟨by rw [hsk, h46]; decide, fun h => (by cases h), fun _ => hsk⟩
          obtain ⟨hn40, hn46, hsk⟩ := hnp
          have hca0 := getCallArguments_none n' q0 (by have := get_lt hb; omega) hn40
          cases hattr : attr with
          | none =>
            obtain ⟨e1, _⟩ := a6 hattr
            rw [e1] at a5
            have haa := getAttributeAccessor_none (skipBlank s q0) (hn46 hattr)
            have hgi : getInline s (n' + 1) false p = .ok (.msg ⟨p, q0⟩ none) (skipBlank s q0) := by
              simp [getInline, hb, f1, f2, f3, f4, hba, i1, hca0, haa]
            refine ⟨_, _, hgi, ?_, skipBlank_le_size i3, ?_⟩
            · rw [jI_msg, ← i4, a4, hattr]
            · rw [a5, blankOpt_eq_skipBlank, blankOpt_eq_skipBlank, skipBlank_idem s q0 i3]
          | some a =>
            have hsk' := hsk (by rw [hattr]; simp)
            rw [hsk'] at hca0
            rw [hattr] at a1
            have hgi : getInline s (n' + 1) false p = .ok (.msg ⟨p, q0⟩ (some a)) q' := by
              simp [getInline, hb, f1, f2, f3, f4, hba, i1, hca0, a1]
            refine ⟨_, _, hgi, ?_, a2, by rw [a5]⟩
            rw [jI_msg, ← i4, a4, hattr]
        · split at hI
          · -- TermReference
            rename_i r0 hi0
            have h45 : s[p]? = some 45 := rest_head hi0
            have hr0 : r0 = rest s (p + 1) := (rest_cons_inv hi0).2
            subst hr0
            split at hI
            · rename_i id r1 hid
              obtain ⟨q0, i1, i2, i3, i4, i5, b, hb, hba⟩ := identifier_fwd hs hid
              rw [getIdentifier_unchecked hb hba] at i1
              have hst : isIdentifierStart s (p + 1) = true := by simp [isIdentifierStart, hb, hba]
              subst i5
              have g34 : ((45 : UInt8) == 34) = false := by decide
              have gd : isDigit 45 = false := by decide
              cases hc : callArguments m (attributeAccessorOpt (rest s q0)).2 with
              | ok args r3 =>
                rw [hc] at hI
                injection hI with e1 e2; subst e1; subst e2
                obtain ⟨pos, named⟩ := args
                -- the accessor: a dangling `.` would make CallArguments fail
                have hnd : ∀ t, (attributeAccessorOpt (rest s q0)).2 ≠ 46 :: t := by
                  intro t ht
                  rw [ht] at hc
                  cases m with
                  | zero => simp [callArguments] at hc
                  | succ m' =>
                    simp only [callArguments] at hc
                    rw [blankOpt_other _ (by decide) (by decide) (by decide)] at hc
                    simp at hc
                obtain ⟨attr, q', a1, a2, a3, a4, a5, a6⟩ := attributeAccessor_fwd hs q0 i3 hnd
                rw [a5] at hc
                obtain ⟨pos', named', q1, c1, c2, c3, c4, c5⟩ := hca n' q' pos named _ hc a2 (by omega)
                have hgi : getInline s (n' + 1) false p = .ok (.term ⟨p + 1, q0⟩ attr (some (pos', named'))) q1 := by
                  simp [getInline, h45, g34, gd, hst, i1, a1, c1]
                refine ⟨_, _, hgi, ?_, c4, by rw [c5]⟩
                rw [jI_term_some, c2, c3, ← i4, a4]
              | fail =>
                rw [hc] at hI
                injection hI with e1 e2; subst e1; subst e2
                have hnd : ∀ t, (attributeAccessorOpt (rest s q0)).2 ≠ 46 :: t := follow_not_dot hF
                obtain ⟨attr, q', a1, a2, a3, a4, a5, a6⟩ := attributeAccessor_fwd hs q0 i3 hnd
                rw [a5] at hF ⊢
                obtain ⟨c, g1, g2, g3, g4⟩ := follow_at hF
                have hca0 := getCallArguments_none n' q' (by have := get_lt h45; omega) (by rw [g1]; simpa using g2)
                have hgi : getInline s (n' + 1) false p = .ok (.term ⟨p + 1, q0⟩ attr none) (skipBlank s q') := by
                  simp [getInline, h45, g34, gd, hst, i1, a1, hca0]
                refine ⟨_, _, hgi, ?_, skipBlank_le_size a2, ?_⟩
                · rw [jI_term_none, ← i4, a4]
                · rw [blankOpt_eq_skipBlank, blankOpt_eq_skipBlank, skipBlank_idem s q' a2]
              | fuel => rw [hc] at hI; cases hI
            · cases hI
          · -- VariableReference
            rename_i r0 hi0
            have h36 : s[p]? = some 36 := rest_head hi0
            have hr0 : r0 = rest s (p + 1) := (rest_cons_inv hi0).2
            subst hr0
            split at hI
            · rename_i id r1 hid
              obtain ⟨q0, i1, i2, i3, i4, i5, _⟩ := identifier_fwd hs hid
              injection hI with e1 e2; subst e1; subst e2
              have g34 : ((36 : UInt8) == 34) = false := by decide
              have gd : isDigit 36 = false := by decide
              have g45 : ((36 : UInt8) == 45) = false := by decide
              have hgi : getInline s (n' + 1) false p = .ok (.var ⟨p + 1, q0⟩) q0 := by
                simp [getInline, h36, g34, gd, g45, i1]
              exact ⟨_, _, hgi, by rw [jI_var, i4], i3, by rw [i5]⟩
            · cases hI
          · -- nested inline_placeable
            rename_i hid h45 h36
            cases hp' : inlinePlaceable m (rest s p) with
            | ok e r' =>
              rw [hp'] at hI
              injection hI with e1 e2; subst e1; subst e2
              obtain ⟨t, ht⟩ := inlinePlaceable_head hp'
              have h123 : s[p]? = some 123 := rest_head ht
              have hlt := get_lt h123
              obtain ⟨e', q, p1, p2, p3, p4⟩ := hpl n' p e _ hp' (by omega)
              have g34 : ((123 : UInt8) == 34) = false := by decide
              have gd : isDigit 123 = false := by decide
              have g45 : ((123 : UInt8) == 45) = false := by decide
              have g36 : ((123 : UInt8) == 36) = false := by decide
              have ga : isAlpha 123 = false := by decide
              have hgi : getInline s (n' + 1) false p = .ok (.placeable e') q := by
                simp [getInline, h123, g34, gd, g45, g36, ga, p1]
              exact ⟨_, _, hgi, by rw [jI_placeable, p2], p3, by rw [p4]⟩
            | fail => rw [hp'] at hI; cases hI
            | fuel => rw [hp'] at hI; cases hI


/-! ## call arguments -/

theorem splitArgs_cons (a : Arg) (rest : List Arg) (P : List (Inline Bytes)) (N : List (Bytes × Inline Bytes)) :
    splitArgs (a :: rest) P N = (splitArgs [a] P N).bind (fun pn => splitArgs rest pn.1 pn.2) := by
  cases a with
  | positional e => simp only [splitArgs]; split <;> simp [splitArgs]
  | named n v => simp only [splitArgs]; split <;> simp [splitArgs]

theorem jNamed_any (s : Src) (l : List (Span × Inline Span)) (nm : Bytes) :
    (jNamed s l).any (fun x => x.1 == nm) = l.any (fun na => spanBytes s na.1 == nm) := by
  induction l with
  | nil => simp [jNamed_nil]
  | cons a t ih => obtain ⟨a1, a2⟩ := a; simp [jNamed_cons, ih]

theorem jNamed_isEmpty (s : Src) (l : List (Span × Inline Span)) : (jNamed s l).isEmpty = l.isEmpty := by
  cases l with
  | nil => simp [jNamed_nil]
  | cons a t => obtain ⟨a1, a2⟩ := a; simp [jNamed_cons]

/-- an identifier that is followed (after blank) by something that is neither `(` nor `.`: the parser
reads a message reference without attribute and leaves the cursor after the blank -/
theorem getInline_msg_none {s : Src} (hs : AsciiThenBoundary s) {n p : Nat} {id : Bytes} {r0 : List UInt8}
    (hid : identifier (rest s p) = some (id, r0)) (hn : 2 ≤ n)
    (hq : ∀ q0, r0 = rest s q0 → q0 ≤ s.size → s[skipBlank s q0]? ≠ some 40 ∧ s[skipBlank s q0]? ≠ some 46) :
    ∃ q0, r0 = rest s q0 ∧ q0 ≤ s.size ∧ p < q0 ∧ id = spanBytes s ⟨p, q0⟩ ∧
      getInline s n false p = .ok (.msg ⟨p, q0⟩ none) (skipBlank s q0) := by
  obtain ⟨n', rfl⟩ : ∃ n', n = n' + 1 := ⟨n - 1, by omega⟩
  obtain ⟨q0, i1, i2, i3, i4, i5, b, hb, hba⟩ := identifier_fwd hs hid
  obtain ⟨f1, f2, f3, f4, f5⟩ := alpha_facts b hba
  rw [getIdentifier_unchecked hb hba] at i1
  obtain ⟨h40, h46⟩ := hq q0 i5 i3
  have hca0 := getCallArguments_none n' q0 (by omega) h40
  have haa := getAttributeAccessor_none (skipBlank s q0) h46
  exact ⟨q0, i5, i3, i2, i4, by simp [getInline, hb, f1, f2, f3, f4, hba, i1, hca0, haa]⟩

/-- a literal value of a named argument (`get_inline_expression(only_literal = true)`) -/
theorem getInline_literal {s : Src} (hs : AsciiThenBoundary s) {n p : Nat} (hn : 0 < n) {v : Bytes} {r : List UInt8}
    (hdot : ∀ t, r ≠ 46 :: t) :
    (stringLiteral (rest s p) = some (v, r) →
      ∃ e q, getInline s n true p = .ok e q ∧ jI s e = .str v ∧ q ≤ s.size ∧ r = rest s q) ∧
    (stringLiteral (rest s p) = none → numberLiteral (rest s p) = some (v, r) →
      ∃ e q, getInline s n true p = .ok e q ∧ jI s e = .num v ∧ q ≤ s.size ∧ r = rest s q) := by
  obtain ⟨n', rfl⟩ : ∃ n', n = n' + 1 := ⟨n - 1, by omega⟩
  constructor
  · intro h
    obtain ⟨q, g1, g2, g3, g4⟩ := getInline_string hs n' true h
    exact ⟨_, _, g1, by rw [jI_str, g3], g2, g4⟩
  · intro _ hnl
    obtain ⟨q, g1, g2, g3, g4, g5⟩ := number_fwd hs hnl hdot
    obtain ⟨b, hb, hbd⟩ := number_start_asc hnl
    have hgi : getInline s (n' + 1) true p = .ok (.num ⟨p, q⟩) q := by
      rcases hbd with hd | rfl
      · simp [getInline, hb, digit_facts b hd, hd, g1]
      · have h1 : ((45 : UInt8) == 34) = false := by decide
        have h2 : isDigit 45 = false := by decide
        simp [getInline, hb, g1, h1, h2]
    exact ⟨_, _, hgi, by rw [jI_num, g4], g3, g5⟩


/-- the cursor after `next` in the argument loop: blank, an optional comma, blank -/
def nextPos (s : Src) (q : Nat) : Nat := skipBlank s (takeByteIf s (skipBlank s q) 44).1

theorem nextPos_spec {s : Src} {q : Nat} (hq : q ≤ s.size) {t : List UInt8} (sep : Bool)
    (h : blankOpt (rest s q) = (if sep then 44 else 41) :: t) :
    q ≤ nextPos s q ∧ nextPos s q ≤ s.size ∧ rest s (nextPos s q) = (if sep then blankOpt t else 41 :: t) := by
  rw [blankOpt_eq_skipBlank] at h
  have h1 := skipBlank_ge s q
  have h2 := skipBlank_le_size hq
  obtain ⟨hb, ht⟩ := rest_cons_inv h
  have hlt := get_lt hb
  unfold nextPos
  cases sep with
  | true =>
    simp only [if_true] at hb ht ⊢
    have : takeByteIf s (skipBlank s q) 44 = (skipBlank s q + 1, true) := by simp [takeByteIf, isCurrentByte, hb]
    rw [this]
    simp only
    refine ⟨by have := skipBlank_ge s (skipBlank s q + 1); omega, skipBlank_le_size (by omega), ?_⟩
    rw [← blankOpt_eq_skipBlank, ← ht]
  | false =>
    simp only [Bool.false_eq_true, if_false] at hb ht h ⊢
    have : takeByteIf s (skipBlank s q) 44 = (skipBlank s q, false) := by simp [takeByteIf, isCurrentByte, hb]
    rw [this]
    simp only
    rw [skipBlank_idem s q hq]
    exact ⟨h1, h2, h⟩

def ArgIterRef (s : Src) (m : Nat) : Prop :=
  ∀ n p a r t pos0 named0 P N (sep : Bool),
    argument m (rest s p) = .ok a r →
    blankOpt r = (if sep then 44 else 41) :: t →
    splitArgs [a] (jInl s pos0) (jNamed s named0) = some (P, N) →
    p ≤ s.size → 4 * (s.size - p) + 2 ≤ n + 1 →
    ∃ pos1 named1 q3, getCallArgsLoop s (n + 1) pos0 named0 p = getCallArgsLoop s n pos1 named1 q3 ∧
      jInl s pos1 = P ∧ jNamed s named1 = N ∧ p < q3 ∧ q3 ≤ s.size ∧
      rest s q3 = (if sep then blankOpt t else 41 :: t)

theorem follow_of_sep {r t : List UInt8} {sep : Bool} (h : blankOpt r = (if sep then 44 else 41) :: t) : Follow r := by
  refine ⟨_, t, h, ?_⟩
  cases sep <;> decide

theorem getInline_not_close {s : Src} {n p : Nat} {ol : Bool} {e : Inline Span} {q : Nat}
    (h : getInline s n ol p = .ok e q) : s[p]? ≠ some 41 := by
  intro h41
  cases n with
  | zero => simp [getInline] at h
  | succ n =>
    have g1 : ((41 : UInt8) == 34) = false := by decide
    have g2 : isDigit 41 = false := by decide
    have g3 : ((41 : UInt8) == 45) = false := by decide
    have g4 : ((41 : UInt8) == 36) = false := by decide
    have g5 : isAlpha 41 = false := by decide
    have g6 : ((41 : UInt8) == 123) = false := by decide
    simp [getInline, h41, g1, g2, g3, g4, g5, g6] at h
    split at h <;> cases h


/-- one round of the argument loop: `Argument` followed by `blank? ","` or by the closing parenthesis -/
theorem argIter_step {s : Src} (hs : AsciiThenBoundary s) {m : Nat} (hi : InlineRef s m) : ArgIterRef s (m + 1) := by
  intro n p a r t pos0 named0 P N sep hA hsep hsplit hp hn
  have hF : Follow r := follow_of_sep hsep
  simp only [argument] at hA
  split at hA
  · -- NamedArgument
    rename_i a' r' hna
    injection hA with e1 e2; subst e1; subst e2
    split at hna
    · rename_i name r0 hid
      split at hna
      · rename_i r1 hcolon
        -- the name, read by the parser as a message reference
        have hq : ∀ q0, r0 = rest s q0 → q0 ≤ s.size → s[skipBlank s q0]? ≠ some 40 ∧ s[skipBlank s q0]? ≠ some 46 := by
          intro q0 h0 _
          rw [h0, blankOpt_eq_skipBlank] at hcolon
          have := rest_head hcolon
          rw [this]; exact ⟨by decide, by decide⟩
        have hplt : p < s.size := by
          obtain ⟨_, _, _, _, _, _, b, hb, _⟩ := identifier_fwd hs hid
          exact get_lt hb
        obtain ⟨q0, h0, h0s, h0p, h0id, hgi⟩ := getInline_msg_none (n := n) hs hid (by omega) hq
        subst h0
        rw [blankOpt_eq_skipBlank] at hcolon
        obtain ⟨h58, hr1⟩ := rest_cons_inv hcolon
        have hq1s := skipBlank_le_size h0s
        have hq1lt := get_lt h58
        -- the value
        have hdot := follow_not_dot hF
        have hval : ∃ val q3 v, getInline s n true (skipBlank s (skipBlank s q0 + 1)) = .ok val q3 ∧ q3 ≤ s.size ∧
            a' = .named name v ∧ jI s val = v ∧ r' = rest s q3 := by
          have hr2 : blankOpt r1 = rest s (skipBlank s (skipBlank s q0 + 1)) := by
            rw [hr1, blankOpt_eq_skipBlank]
          rw [hr2] at hna
          split at hna
          · rename_i v r3 hsl
            injection hna with hna; injection hna with e1 e2; subst e1; subst e2
            obtain ⟨e, q, g1, g2, g3, g4⟩ := (getInline_literal (n := n) hs (by omega) hdot).1 hsl
            exact ⟨e, q, _, g1, g3, rfl, g2, g4⟩
          · rename_i hsl
            split at hna
            · rename_i v r3 hnl
              injection hna with hna; injection hna with e1 e2; subst e1; subst e2
              obtain ⟨e, q, g1, g2, g3, g4⟩ := (getInline_literal (n := n) hs (by omega) hdot).2 hsl hnl
              exact ⟨e, q, _, g1, g3, rfl, g2, g4⟩
            · cases hna
        obtain ⟨val, q3, v, hv1, hv2, hv3, hv4, hv5⟩ := hval
        subst hv3
        -- validity: the name is new
        simp only [splitArgs] at hsplit
        split at hsplit
        · cases hsplit
        · rename_i hdup
          injection hsplit with hsplit; injection hsplit with e1 e2; subst e1; subst e2
          have hdup' : named0.any (fun na => spanBytes s na.1 == spanBytes s ⟨p, q0⟩) = false := by
            rw [← jNamed_any, ← h0id]; exact Bool.eq_false_iff.mpr hdup
          have hq3 : skipBlank s q0 + 1 ≤ q3 := by
            have h1 := skipBlank_ge s (skipBlank s q0 + 1)
            have hsk0 := skipBlank_ge s q0
            have hle := skipBlank_le_size (s := s) (p := skipBlank s q0 + 1) (by omega)
            have hfu : 4 * (s.size - skipBlank s (skipBlank s q0 + 1)) + 1 ≤ n := by omega
            have := (specs_all hs n).inline true (skipBlank s (skipBlank s q0 + 1)) hle hfu
            rw [hv1] at this
            have := ((good_ok _ _ _ _ _).mp this).2.2.1
            omega
          have hsk0 := skipBlank_ge s q0
          rw [hv5] at hsep
          obtain ⟨np1, np2, np3⟩ := nextPos_spec hv2 sep hsep
          have hnot41 : isCurrentByte s p 41 = false := by
            have := getInline_not_close hgi
            simp only [isCurrentByte]; simpa using this
          have h58' : isCurrentByte s (skipBlank s q0) 58 = true := by simp [isCurrentByte, h58]
          refine ⟨pos0, named0 ++ [(⟨p, q0⟩, val)], nextPos s q3, ?_, rfl, ?_, by omega, np2, np3⟩
          · simp only [getCallArgsLoop, hplt, if_true, hnot41, Bool.false_eq_true, if_false, hgi]
            simp only [skipBlank_idem s q0 h0s, h58', if_true, hdup', Bool.false_eq_true, if_false, hv1, nextPos]
          · rw [jNamed_append, hv4, ← h0id]
      · cases hna
    · cases hna
  · -- positional InlineExpression
    rename_i hna
    cases hie : inlineExpression m (rest s p) with
    | ok e r' =>
      rw [hie] at hA
      injection hA with e1 e2; subst e1; subst e2
      obtain ⟨e', q, g1, g2, g3, g4⟩ := hi n p e r' hie hF hp (by omega)
      rw [g4] at hsep
      obtain ⟨np1, np2, np3⟩ := nextPos_spec g3 sep hsep
      simp only [splitArgs] at hsplit
      split at hsplit
      · rename_i hemp
        injection hsplit with hsplit; injection hsplit with e1 e2; subst e1; subst e2
        have hne : named0.isEmpty = true := by rw [← jNamed_isEmpty s]; exact hemp
        have hplt : p < s.size := by
          by_cases hc : p < s.size
          · exact hc
          · exfalso
            have : s[p]? = none := by simp; omega
            cases n with
            | zero => simp [getInline] at g1
            | succ n' => simp [getInline, this] at g1
        have hpq : p < q := by
          have := (specs_all hs n).inline false p hp (by omega)
          rw [g1] at this
          exact ((good_ok _ _ _ _ _).mp this).2.2.1
        have hnot41 : isCurrentByte s p 41 = false := by
          have := getInline_not_close g1
          simp only [isCurrentByte]; simpa using this
        -- the first non-blank byte after the expression is `,` or `)`, not `:`
        have hnc : isCurrentByte s (skipBlank s q) 58 = false := by
          rw [blankOpt_eq_skipBlank] at hsep
          have := rest_head hsep
          simp only [isCurrentByte, this]
          cases sep <;> decide
        refine ⟨pos0 ++ [e'], named0, nextPos s q, ?_, by rw [jInl_append, g2], rfl, by omega, np2, np3⟩
        simp only [getCallArgsLoop, hplt, if_true, hnot41, Bool.false_eq_true, if_false, g1]
        have hnx : nextPos s (skipBlank s q) = nextPos s q := by
          unfold nextPos; rw [skipBlank_idem s q g3]
        split
        · simp only [hnc, Bool.false_eq_true, if_false, hne, Bool.not_true]
          rw [← hnx]
          unfold nextPos
          cases takeByteIf s (skipBlank s (skipBlank s q)) 44
          rfl
        · simp only [hne, Bool.not_true, Bool.false_eq_true, if_false]
          unfold nextPos
          cases takeByteIf s (skipBlank s q) 44
          rfl
      · cases hsplit
    | fail => rw [hie] at hA; cases hA
    | fuel => rw [hie] at hA; cases hA


def ArgListRef (s : Src) (m : Nat) : Prop :=
  ∀ n p args r1 r2 pos0 named0 P N,
    argumentList m (rest s p) = .ok args r1 → blankOpt r1 = 41 :: r2 →
    blankOpt (rest s p) = rest s p →
    splitArgs args (jInl s pos0) (jNamed s named0) = some (P, N) →
    p ≤ s.size → 4 * (s.size - p) + 2 ≤ n →
    ∃ pos' named' q, getCallArgsLoop s n pos0 named0 p = .ok (pos', named') q ∧ jInl s pos' = P ∧
      jNamed s named' = N ∧ rest s q = 41 :: r2 ∧ q ≤ s.size

theorem getCallArgsLoop_close {s : Src} {n p : Nat} (hn : 0 < n) {t : List UInt8} (h : rest s p = 41 :: t)
    (pos : List (Inline Span)) (named : List (Span × Inline Span)) :
    getCallArgsLoop s n pos named p = .ok (pos, named) p := by
  obtain ⟨n', rfl⟩ : ∃ n', n = n' + 1 := ⟨n - 1, by omega⟩
  have h41 := rest_head h
  have hlt := get_lt h41
  have hc : isCurrentByte s p 41 = true := by simp [isCurrentByte, h41]
  simp only [getCallArgsLoop, hlt, if_true, hc]

/-- `argument_list ::= (Argument blank? "," blank?)* Argument?` up to the closing parenthesis is the
`while` loop of `get_call_arguments` -/
theorem argList_step {s : Src} {m : Nat} (hit : ArgIterRef s m) (hal : ArgListRef s m) : ArgListRef s (m + 1) := by
  intro n p args r1 r2 pos0 named0 P N hA hclose hnorm hsplit hp hn
  obtain ⟨n', rfl⟩ : ∃ n', n = n' + 1 := ⟨n - 1, by omega⟩
  simp only [argumentList] at hA
  cases harg : argument m (rest s p) with
  | ok a r =>
    rw [harg] at hA
    simp only at hA
    split at hA
    · -- a comma follows
      rename_i t hcomma
      cases hmore : argumentList m (blankOpt t) with
      | ok more r2' =>
        rw [hmore] at hA
        injection hA with e1 e2; subst e1
        rw [← e2] at hclose
        rw [splitArgs_cons] at hsplit
        cases hone : splitArgs [a] (jInl s pos0) (jNamed s named0) with
        | none => rw [hone] at hsplit; cases hsplit
        | some pn =>
          obtain ⟨P1, N1⟩ := pn
          rw [hone] at hsplit
          simp only [Option.bind_some] at hsplit
          obtain ⟨pos1, named1, q3, h1, h2, h3, h4, h5, h6⟩ :=
            hit n' p a r t pos0 named0 P1 N1 true harg (by simpa using hcomma) hone hp hn
          simp only [if_true] at h6
          rw [← h6] at hmore
          rw [← h2, ← h3] at hsplit
          obtain ⟨pos', named', q, g1, g2, g3, g4, g5⟩ :=
            hal n' q3 more r2' r2 pos1 named1 P N hmore hclose (by rw [h6, blankOpt_idem]) hsplit h5 (by omega)
          exact ⟨pos', named', q, by rw [h1, g1], g2, g3, g4, g5⟩
      | fail => rw [hmore] at hA; cases hA
      | fuel => rw [hmore] at hA; cases hA
    · -- the last argument
      rename_i hnocomma
      injection hA with e1 e2; subst e1
      rw [← e2] at hclose
      obtain ⟨pos1, named1, q3, h1, h2, h3, h4, h5, h6⟩ :=
        hit n' p a r r2 pos0 named0 P N false harg (by simpa using hclose) hsplit hp hn
      simp only [Bool.false_eq_true, if_false] at h6
      have hfin := getCallArgsLoop_close (n := n') (by omega) h6 pos1 named1
      exact ⟨pos1, named1, q3, by rw [h1, hfin], h2, h3, h6, h5⟩
  | fail =>
    rw [harg] at hA
    injection hA with e1 e2; subst e1; subst e2
    rw [hnorm] at hclose
    simp only [splitArgs] at hsplit
    injection hsplit with hsplit; injection hsplit with e1 e2
    have hfin := getCallArgsLoop_close (n := n' + 1) (by omega) hclose pos0 named0
    exact ⟨pos0, named0, p, hfin, e1, e2, hclose, hp⟩
  | fuel => rw [harg] at hA; cases hA

/-- `CallArguments ::= blank? "(" blank? argument_list blank? ")"` with the validity rules (no positional
argument after a named one, no duplicate name) is `get_call_arguments` -/
theorem callArgs_step {s : Src} {m : Nat} (hal : ArgListRef s m) : CallArgsRef s (m + 1) := by
  intro n p pos named r hC hp hn
  obtain ⟨n', rfl⟩ : ∃ n', n = n' + 1 := ⟨n - 1, by omega⟩
  simp only [callArguments] at hC
  split at hC
  · rename_i r0 hopen
    rw [blankOpt_eq_skipBlank] at hopen
    obtain ⟨h40, hr0⟩ := rest_cons_inv hopen
    have hlt := get_lt h40
    have hge := skipBlank_ge s p
    cases hargs : argumentList m (blankOpt r0) with
    | ok args r1 =>
      rw [hargs] at hC
      simp only at hC
      split at hC
      · rename_i r2 hclose
        split at hC
        · rename_i pn hsplit
          injection hC with e1 e2; subst e1; subst e2
          rw [hr0, blankOpt_eq_skipBlank] at hargs
          have hp3 := skipBlank_le_size (s := s) (p := skipBlank s p + 1) (by omega)
          have hge3 := skipBlank_ge s (skipBlank s p + 1)
          obtain ⟨pos', named', q, g1, g2, g3, g4, g5⟩ :=
            hal n' (skipBlank s (skipBlank s p + 1)) args r1 r2 [] [] pos named hargs hclose
              (by rw [blankOpt_eq_skipBlank, skipBlank_idem s _ (by omega)])
              (by rw [jInl_nil, jNamed_nil]; exact hsplit) hp3 (by omega)
          obtain ⟨h41, hr2⟩ := rest_cons_inv g4
          have hqlt := get_lt h41
          have hgc : getCallArguments s (n' + 1) p = .ok (some (pos', named')) (q + 1) := by
            simp [getCallArguments, takeByteIf, isCurrentByte, h40, g1, expectByte, h41]
          exact ⟨pos', named', q + 1, hgc, g2, g3, by omega, hr2⟩
        · cases hC
      · cases hC
    | fail => rw [hargs] at hC; cases hC
    | fuel => rw [hargs] at hC; cases hC
  · cases hC


/-! ## variants -/

theorem not_dot_of_blank_head {r t : List UInt8} {c : UInt8} (h : blankOpt r = c :: t) (hc : c ≠ 46) :
    ∀ t', r ≠ 46 :: t' := by
  intro t' ht
  rw [ht, blankOpt_other _ (by decide) (by decide) (by decide)] at h
  injection h with h _
  exact hc h.symm

/-- `VariantKey ::= "[" blank? (NumberLiteral | Identifier) blank? "]"` against the inlined `get_variant_key` -/
theorem variantKey_fwd {s : Src} (hs : AsciiThenBoundary s) {p1 : Nat} {k : VKey Bytes} {r3 : List UInt8}
    (h : SpecGrammar.variantKey (rest s p1) = some (k, r3)) :
    s[p1]? = some 91 ∧ ∃ key q, FluentProofs.Parser.variantKey s (skipBlank s (p1 + 1)) = .ok key q ∧
      s[skipBlank s q]? = some 93 ∧ k = key.mapS (spanBytes s) ∧ r3 = rest s (skipBlank s q + 1) ∧
      skipBlank s q + 1 ≤ s.size ∧ p1 + 1 < q ∧ q ≤ s.size := by
  have h91 : s[p1]? = some 91 := by
    rcases rest_cases s p1 with ⟨_, h2⟩ | ⟨c, g1, g2⟩
    · rw [h2] at h; simp [SpecGrammar.variantKey] at h
    · rw [g2] at h
      by_cases hc : c = 91
      · subst hc; exact g1
      · exfalso
        unfold SpecGrammar.variantKey at h
        split at h
        · rename_i heq; injection heq with hx _; exact hc hx
        · cases h
  refine ⟨h91, ?_⟩
  have hlt := get_lt h91
  rw [rest_cons h91] at h
  simp only [SpecGrammar.variantKey] at h
  rw [blankOpt_eq_skipBlank] at h
  have hp3 := skipBlank_le_size (s := s) (p := p1 + 1) (by omega)
  have hge3 := skipBlank_ge s (p1 + 1)
  split at h
  · rename_i k' r2 hk
    split at h
    · rename_i r3' hclose
      injection h with h; injection h with e1 e2; subst e1; subst e2
      have hkey : ∃ key q, FluentProofs.Parser.variantKey s (skipBlank s (p1 + 1)) = .ok key q ∧
          k' = key.mapS (spanBytes s) ∧ r2 = rest s q ∧ skipBlank s (p1 + 1) < q ∧ q ≤ s.size := by
        split at hk
        · rename_i v r2' hnl
          injection hk with hk; injection hk with e1 e2; subst e1; subst e2
          obtain ⟨q, g1, g2, g3, g4, g5⟩ := number_fwd hs hnl (not_dot_of_blank_head hclose (by decide))
          obtain ⟨b, hb, hbd⟩ := number_start_asc hnl
          have hns : isNumberStart s (skipBlank s (p1 + 1)) = true := by
            rcases hbd with hd | rfl
            · simp [isNumberStart, hb, hd]
            · simp [isNumberStart, hb]
          exact ⟨.num ⟨skipBlank s (p1 + 1), q⟩, q, by simp [FluentProofs.Parser.variantKey, hns, g1], by simp [VKey.mapS, g4], g5, g2, g3⟩
        · rename_i hnl
          split at hk
          · rename_i nm r2' hid
            injection hk with hk; injection hk with e1 e2; subst e1; subst e2
            obtain ⟨q, g1, g2, g3, g4, g5, b, hb, hba⟩ := identifier_fwd hs hid
            have hns : isNumberStart s (skipBlank s (p1 + 1)) = false := by
              obtain ⟨_, f2, f3, _, _⟩ := alpha_facts b hba
              simp [isNumberStart, hb, f2, f3]
            exact ⟨.ident ⟨skipBlank s (p1 + 1), q⟩, q, by simp [FluentProofs.Parser.variantKey, hns, g1], by simp [VKey.mapS, g4], g5, g2, g3⟩
          · cases hk
      obtain ⟨key, q, k1, k2, k3, k4, k5⟩ := hkey
      rw [k3, blankOpt_eq_skipBlank] at hclose
      obtain ⟨h93, hr3⟩ := rest_cons_inv hclose
      have := get_lt h93
      exact ⟨key, q, k1, h93, k2, hr3, by omega, by omega, k5⟩
    · cases h
  · cases h


/-- the input after the blank lines that may follow a pattern (what `get_pattern` leaves: the start of
the first line that does not belong to the pattern) -/
def afterBlank (r : List UInt8) : List UInt8 :=
  match blankBlock r with
  | some (_, r') => r'
  | none => r

theorem blankBlockScan_blankOpt (i ls : List UInt8) (c : Nat) : ∀ (c' : Nat) (r : List UInt8),
    blankOpt ls = blankOpt i → blankBlockScan i ls c = some (c', r) → blankOpt r = blankOpt i := by
  fun_induction blankBlockScan i ls c <;> intro c' r h0 h <;> simp_all [blankOpt]
  all_goals grind [blankOpt]


theorem blankOpt_afterBlank (r : List UInt8) : blankOpt (afterBlank r) = blankOpt r := by
  unfold afterBlank
  split
  · rename_i c r' h
    exact blankBlockScan_blankOpt r r 0 c r' rfl h
  · rfl

theorem blankOpt_lineEnd {i r : List UInt8} (h : lineEnd i = some r) : blankOpt i = blankOpt r := by
  unfold lineEnd at h
  split at h
  · injection h with h; subst h; simp [blankOpt]
  · injection h with h; subst h; simp [blankOpt]
  · injection h with h; subst h; rfl
  · cases h

/-- what follows a pattern in every context of the grammar: a line end; and the first non-blank byte after it
is not `{`, and is one of `.` `[` `*` `}` unless it stands in column 0 (the next entry) -/
def PatFollow (r : List UInt8) : Prop :=
  (lineEnd r).isSome = true ∧
    ∀ b t, blankOpt r = b :: t → b ≠ 123 ∧ (b = 46 ∨ b = 91 ∨ b = 42 ∨ b = 125 ∨ afterBlank r = b :: t)

/-- what follows the pattern of a variant: a line end, then (after blank) the next variant or the closing brace -/
def VFollow (r : List UInt8) : Prop :=
  (lineEnd r).isSome = true ∧ ∃ b t, blankOpt r = b :: t ∧ (b = 91 ∨ b = 42 ∨ b = 125)

theorem VFollow.patFollow {r : List UInt8} (h : VFollow r) : PatFollow r := by
  obtain ⟨h1, b, t, h2, h3⟩ := h
  refine ⟨h1, fun b' t' h' => ?_⟩
  rw [h2] at h'
  injection h' with e1 e2
  subst e1
  rcases h3 with rfl | rfl | rfl
  · exact ⟨by decide, Or.inr (Or.inl rfl)⟩
  · exact ⟨by decide, Or.inr (Or.inr (Or.inl rfl))⟩
  · exact ⟨by decide, Or.inr (Or.inr (Or.inr (Or.inl rfl)))⟩

def PatternRef (s : Src) (m : Nat) : Prop :=
  ∀ n p0 pat r, pattern m (spaces (rest s p0)) = .ok pat r → PatFollow r → p0 ≤ s.size → Bnd s p0 →
    4 * (s.size - p0) + 2 ≤ n →
    ∃ pat' q, getPattern s n p0 = .ok (some pat') q ∧ jPat s pat' = pat ∧ q ≤ s.size ∧ p0 ≤ q ∧ rest s q = afterBlank r

/-- one round of the variant loop -/
def VariantIterRef (s : Src) (m : Nat) : Prop :=
  ∀ n pp i d v r4 hd acc, variant m d i = .ok v r4 → rest s pp = blankOpt i → VFollow r4 →
    (d && hd) = false → pp ≤ s.size → 4 * (s.size - pp) + 1 ≤ n + 1 →
    ∃ v' q, getVariants s (n + 1) hd acc pp = getVariants s n (hd || d) (acc ++ [v']) q ∧ jV s v' = v ∧
      pp < q ∧ q ≤ s.size ∧ rest s q = blankOpt r4

theorem variant_lineEnd {m : Nat} {d : Bool} {i r : List UInt8} {v : Variant Bytes} (h : variant m d i = .ok v r) :
    (lineEnd i).isSome = true := by
  cases m with
  | zero => simp [variant] at h
  | succ m =>
    simp only [variant] at h
    split at h
    · cases h
    · rename_i heq; simp [heq]

theorem variantIter_step {s : Src} (hs : AsciiThenBoundary s) {m : Nat} (hpat : PatternRef s m) : VariantIterRef s (m + 1) := by
  intro n pp i d v r4 hd acc hV hpp hle hdh hps hn
  simp only [variant] at hV
  split at hV
  · cases hV
  · rename_i r0 hl0
    have hb0 : blankOpt i = blankOpt r0 := blankOpt_lineEnd hl0
    rw [hb0] at hpp
    split at hV
    · cases hV
    · rename_i r2 hr2
      split at hV
      · cases hV
      · rename_i k r3 hk
        cases hp : pattern m (spaces r3) with
        | ok pat r4' =>
          rw [hp] at hV
          injection hV with e1 e2; subst e1; subst e2
          -- the star
          have hstar : ∃ p1, takeByteIf s pp 42 = (p1, d) ∧ rest s p1 = r2 ∧ pp ≤ p1 ∧ p1 ≤ s.size := by
            cases d with
            | true =>
              simp only [if_true] at hr2
              split at hr2
              · rename_i r' heq
                injection hr2 with hr2; subst hr2
                rw [← hpp] at heq
                obtain ⟨h42, hr'⟩ := rest_cons_inv heq
                have := get_lt h42
                exact ⟨pp + 1, by simp [takeByteIf, isCurrentByte, h42], hr'.symm, by omega, by omega⟩
              · cases hr2
            | false =>
              simp only [Bool.false_eq_true, if_false] at hr2
              injection hr2 with hr2; subst hr2
              -- a variant key follows, so the byte is `[`, not `*`
              obtain ⟨h91, _⟩ := variantKey_fwd hs (p1 := pp) (by rw [hpp]; exact hk)
              exact ⟨pp, by simp [takeByteIf, isCurrentByte, h91], hpp, Nat.le_refl _, hps⟩
          obtain ⟨p1, ht1, hp1, hp1a, hp1b⟩ := hstar
          rw [← hp1] at hk
          obtain ⟨h91, key, q, k1, k2, k3, k4, k5, k6, k7⟩ := variantKey_fwd hs hk
          rw [k4] at hp
          have hqq := skipBlank_ge s q
          obtain ⟨pat', q3, g1, g2, g3, g3', g4⟩ := hpat n (skipBlank s q + 1) pat r4' hp hle.patFollow k5
            (bnd_succ hs k2 (by decide)) (by omega)
          have hq3 := skipBlank_ge s q3
          refine ⟨.mk key pat' d, skipBlank s q3, ?_, by rw [jV_mk, g2, ← k3], by omega,
            skipBlank_le_size g3, by rw [← blankOpt_eq_skipBlank, g4, blankOpt_afterBlank]⟩
          simp only [getVariants, ht1, hdh, Bool.false_eq_true, if_false]
          have ht2 : takeByteIf s p1 91 = (p1 + 1, true) := by simp [takeByteIf, isCurrentByte, h91]
          simp only [ht2, Bool.not_true, Bool.false_eq_true, if_false]
          split
          · rename_i key' q' heq
            have : FluentProofs.Parser.variantKey s (skipBlank s (p1 + 1)) = .ok key' q' := heq
            rw [k1] at this
            injection this with e1 e2; subst e1; subst e2
            simp [expectByte, isCurrentByte, k2, g1]
          · rename_i e q' heq
            have : FluentProofs.Parser.variantKey s (skipBlank s (p1 + 1)) = .err e q' := heq
            rw [k1] at this; cases this
          · rename_i e heq
            have : FluentProofs.Parser.variantKey s (skipBlank s (p1 + 1)) = .panic e := heq
            rw [k1] at this; cases this
          · rename_i heq
            have : FluentProofs.Parser.variantKey s (skipBlank s (p1 + 1)) = .fuel := heq
            rw [k1] at this; cases this
        | fail => rw [hp] at hV; cases hV
        | fuel => rw [hp] at hV; cases hV


theorem variant_head {m : Nat} {d : Bool} {i r : List UInt8} {v : Variant Bytes} (h : variant m d i = .ok v r) :
    (lineEnd i).isSome = true ∧ ∃ t, blankOpt i = (if d then 42 else 91) :: t := by
  cases m with
  | zero => simp [variant] at h
  | succ m =>
    simp only [variant] at h
    split at h
    · cases h
    · rename_i r0 heq
      refine ⟨by simp [heq], ?_⟩
      rw [blankOpt_lineEnd heq]
      split at h
      · cases h
      · rename_i r2 hr2
        split at h
        · cases h
        · rename_i k r3 hk
          have h91 : ∃ t, r2 = 91 :: t := by
            unfold SpecGrammar.variantKey at hk
            split at hk
            · rename_i t; exact ⟨t, rfl⟩
            · cases hk
          obtain ⟨t91, ht91⟩ := h91
          cases d with
          | true =>
            simp only [if_true] at hr2 ⊢
            split at hr2
            · rename_i r' heq2; exact ⟨r', heq2⟩
            · cases hr2
          | false =>
            simp only [Bool.false_eq_true, if_false] at hr2 ⊢
            injection hr2 with hr2
            exact ⟨t91, by rw [hr2, ht91]⟩

theorem variants_vfollow {m : Nat} {i r1 : List UInt8} {vs : List (Variant Bytes)} (h : variants m i = .ok vs r1)
    (hl : VFollow r1) : VFollow i := by
  cases m with
  | zero => simp [variants] at h
  | succ m =>
    simp only [variants] at h
    cases hv : variant m false i with
    | ok v r =>
      obtain ⟨h1, t, h2⟩ := variant_head hv
      exact ⟨h1, 91, t, by simpa using h2, Or.inl rfl⟩
    | fail => rw [hv] at h; injection h with _ e2; subst e2; exact hl
    | fuel => rw [hv] at h; cases h

theorem variants_lineEnd {m : Nat} {i r1 : List UInt8} {vs : List (Variant Bytes)} (h : variants m i = .ok vs r1)
    (hl : (lineEnd r1).isSome = true) : (lineEnd i).isSome = true := by
  cases m with
  | zero => simp [variants] at h
  | succ m =>
    simp only [variants] at h
    cases hv : variant m false i with
    | ok v r => exact variant_lineEnd hv
    | fail => rw [hv] at h; injection h with _ e2; subst e2; exact hl
    | fuel => rw [hv] at h; cases h

/-- `Variant*`: the parser's loop runs through the same variants and arrives, with the same `has_default`
flag, where the grammar's repetition stops -/
def VariantsRef (s : Src) (m : Nat) : Prop :=
  ∀ n pp i vs r1 hd acc, variants m i = .ok vs r1 → rest s pp = blankOpt i → VFollow r1 →
    pp ≤ s.size → 4 * (s.size - pp) + 1 ≤ n →
    ∃ vs' pp' n', getVariants s n hd acc pp = getVariants s n' hd (acc ++ vs') pp' ∧ jVars s vs' = vs ∧
      rest s pp' = blankOpt r1 ∧ pp ≤ pp' ∧ pp' ≤ s.size ∧ 4 * (s.size - pp') + 1 ≤ n'

theorem variants_step {s : Src} {m : Nat} (hit : VariantIterRef s m) (hvs : VariantsRef s m) : VariantsRef s (m + 1) := by
  intro n pp i vs r1 hd acc hV hpp hl hps hn
  obtain ⟨n', rfl⟩ : ∃ n', n = n' + 1 := ⟨n - 1, by omega⟩
  simp only [variants] at hV
  cases hv : variant m false i with
  | ok v r =>
    rw [hv] at hV
    simp only at hV
    cases hmore : variants m r with
    | ok more r' =>
      rw [hmore] at hV
      injection hV with e1 e2; subst e1
      rw [← e2] at hl ⊢
      have hlr := variants_vfollow hmore hl
      obtain ⟨v', q, g1, g2, g3, g4, g5⟩ := hit n' pp i false v r hd acc hv hpp hlr (by simp) hps hn
      obtain ⟨vs', pp', n'', f1, f2, f3, f4, f5, f6⟩ := hvs n' q r more r' hd (acc ++ [v']) hmore g5 hl g4 (by omega)
      refine ⟨v' :: vs', pp', n'', ?_, by rw [jVars_cons, g2, f2], f3, by omega, f5, f6⟩
      rw [g1]
      simp only [Bool.or_false]
      rw [f1]
      simp
    | fail => rw [hmore] at hV; cases hV
    | fuel => rw [hmore] at hV; cases hV
  | fail =>
    rw [hv] at hV
    injection hV with e1 e2; subst e1; subst e2
    exact ⟨[], pp, n' + 1, by simp, jVars_nil s, hpp, Nat.le_refl _, hps, hn⟩
  | fuel => rw [hv] at hV; cases hV

def VariantListRef (s : Src) (m : Nat) : Prop :=
  ∀ n pp i vs r4 r5, variantList m i = .ok vs r4 → blankOpt r4 = 125 :: r5 → rest s pp = blankOpt i →
    pp ≤ s.size → 4 * (s.size - pp) + 1 ≤ n →
    ∃ vs' q, getVariants s n false [] pp = .ok vs' q ∧ jVars s vs' = vs ∧ rest s q = 125 :: r5 ∧ q ≤ s.size

/-- `variant_list ::= Variant* DefaultVariant Variant* line_end` (exactly one default) is `get_variants` -/
theorem variantList_step {s : Src} {m : Nat} (hit : VariantIterRef s m) (hvs : VariantsRef s m) :
    VariantListRef s (m + 1) := by
  intro n pp i vs r4 r5 hV hclose hpp hps hn
  simp only [variantList] at hV
  cases h1 : variants m i with
  | ok vs1 r1 =>
    rw [h1] at hV; simp only at hV
    cases h2 : variant m true r1 with
    | ok d r2 =>
      rw [h2] at hV; simp only at hV
      cases h3 : variants m r2 with
      | ok vs2 r3 =>
        rw [h3] at hV; simp only at hV
        split at hV
        · rename_i r4' hle
          injection hV with e1 e2; subst e1; subst e2
          have hl3 : VFollow r3 := ⟨by simp [hle], 125, r5, by rw [blankOpt_lineEnd hle, hclose], Or.inr (Or.inr rfl)⟩
          have hl2 := variants_vfollow h3 hl3
          have hl1 : VFollow r1 := by
            obtain ⟨a1, t, a2⟩ := variant_head h2
            exact ⟨a1, 42, t, by simpa using a2, Or.inr (Or.inl rfl)⟩
          obtain ⟨vs1', pp1, n1, a1, a2, a3, a4, a5, a6⟩ := hvs n pp i vs1 r1 false [] h1 hpp hl1 hps hn
          obtain ⟨n1', rfl⟩ : ∃ n1', n1 = n1' + 1 := ⟨n1 - 1, by omega⟩
          obtain ⟨d', pp2, b1, b2, b3, b4, b5⟩ := hit n1' pp1 r1 true d r2 false ([] ++ vs1') h2 a3 hl2 (by simp) a5 a6
          obtain ⟨vs2', pp3, n3, c1, c2, c3, c4, c5, c6⟩ :=
            hvs n1' pp2 r2 vs2 r3 true ([] ++ vs1' ++ [d']) h3 b5 hl3 b4 (by omega)
          rw [blankOpt_lineEnd hle, hclose] at c3
          obtain ⟨n3', rfl⟩ : ∃ n3', n3 = n3' + 1 := ⟨n3 - 1, by omega⟩
          have h125 := rest_head c3
          have hend : getVariants s (n3' + 1) true ([] ++ vs1' ++ [d'] ++ vs2') pp3 = .ok ([] ++ vs1' ++ [d'] ++ vs2') pp3 := by
            simp [getVariants, takeByteIf, isCurrentByte, h125]
          refine ⟨[] ++ vs1' ++ [d'] ++ vs2', pp3, ?_, ?_, c3, c5⟩
          · rw [a1, b1]
            simp only [Bool.false_or]
            rw [c1, hend]
          · simp only [List.nil_append, List.append_assoc]
            rw [jVars_append2, jVars_append2, a2, c2, jVars_cons, jVars_nil, b2]
            simp
        · cases hV
      | fail => rw [h3] at hV; cases hV
      | fuel => rw [h3] at hV; cases hV
    | fail => rw [h2] at hV; cases hV
    | fuel => rw [h2] at hV; cases hV
  | fail => rw [h1] at hV; cases hV
  | fuel => rw [h1] at hV; cases hV


/-! ## placeables: `get_placeable` + `get_expression` -/

theorem jI_ctor_term_attr (s : Src) (e : Inline Span) :
    (∃ a b c, jI s e = .term a (some b) c) ↔ (∃ a b c, e = .term a (some b) c) := by
  cases e with
  | term id attr args =>
    cases attr with
    | none => cases args with
      | none => simp [jI_term_none]
      | some pn => obtain ⟨p1, p2⟩ := pn; simp [jI_term_some]
    | some a => cases args with
      | none => simp [jI_term_none]
      | some pn => obtain ⟨p1, p2⟩ := pn; simp [jI_term_some]
  | str v => simp [jI_str]
  | num v => simp [jI_num]
  | fn id pos named => simp [jI_fn]
  | msg id attr => simp [jI_msg]
  | var id => simp [jI_var]
  | placeable e => simp [jI_placeable]

theorem getInline_lt {s : Src} (hs : AsciiThenBoundary s) {n p q : Nat} {ol : Bool} {e : Inline Span}
    (h : getInline s n ol p = .ok e q) (hp : p ≤ s.size) (hn : 4 * (s.size - p) + 1 ≤ n) : p < q := by
  have := (specs_all hs n).inline ol p hp hn
  rw [h] at this
  exact ((good_ok _ _ _ _ _).mp this).2.2.1

theorem placeable_step {s : Src} (hs : AsciiThenBoundary s) {m : Nat} (hi : InlineRef s m) (hvl : VariantListRef s m) :
    PlaceableRef s (m + 1) := by
  intro n p x r hP hn
  obtain ⟨t0, ht0⟩ := inlinePlaceable_head hP
  have h123 := rest_head ht0
  have hplt := get_lt h123
  have hr0 : t0 = rest s (p + 1) := (rest_cons_inv ht0).2
  subst hr0
  rw [ht0] at hP
  simp only [inlinePlaceable] at hP
  obtain ⟨n1, rfl⟩ : ∃ n1, n = n1 + 1 := ⟨n - 1, by omega⟩
  obtain ⟨n2, rfl⟩ : ∃ n2, n1 = n2 + 1 := ⟨n1 - 1, by omega⟩
  rw [blankOpt_eq_skipBlank] at hP
  have hp1 := skipBlank_le_size (s := s) (p := p + 1) (by omega)
  have hge1 := skipBlank_ge s (p + 1)
  cases hie : inlineExpression m (rest s (skipBlank s (p + 1))) with
  | ok e r1 =>
    rw [hie] at hP
    simp only at hP
    split at hP
    · rename_i y r4 hbody
      split at hP
      · rename_i r5 hclose
        split at hP
        · rename_i hok
          injection hP with e1 e2; subst e1; subst e2
          split at hbody
          · -- SelectExpression
            rename_i r2 harrow
            split at hbody
            · rename_i hsel
              cases hv : variantList m (spaces r2) with
              | ok vs r3 =>
                rw [hv] at hbody
                injection hbody with e1 e2; subst e1; subst e2
                have hF : Follow r1 := ⟨45, _, harrow, by decide, by decide, by decide⟩
                obtain ⟨e', q, g1, g2, g3, g4⟩ := hi n2 _ e r1 hie hF hp1 (by omega)
                have hpq := getInline_lt hs g1 hp1 (by omega)
                have hqq := skipBlank_ge s q
                rw [g4, blankOpt_eq_skipBlank] at harrow
                obtain ⟨h45, ht⟩ := rest_cons_inv harrow
                obtain ⟨h62, hr2⟩ := rest_cons_inv ht.symm
                have hq1 := skipBlank_le_size g3
                have hq1lt := get_lt h62
                -- after `->`: blank_inline?, a line end, blank?
                have hsp : spaces r2 = rest s (skipBlankInline s (skipBlank s q + 1 + 1)) := by
                  rw [hr2, spaces_eq_skipBlankInline]
                rw [hsp] at hv
                have hq2 := (skipBlankInline_after s (skipBlank s q + 1 + 1)).le
                have hq2s := (skipBlankInline_after s (skipBlank s q + 1 + 1)).le_size (by omega)
                -- the variant list starts with a line end
                have hle : (lineEnd (rest s (skipBlankInline s (skipBlank s q + 1 + 1)))).isSome = true := by
                  cases m with
                  | zero => simp [variantList] at hv
                  | succ m' =>
                    simp only [variantList] at hv
                    cases hv1 : variants m' (rest s (skipBlankInline s (skipBlank s q + 1 + 1))) with
                    | ok vs1 r1' =>
                      rw [hv1] at hv; simp only at hv
                      cases hv2 : variant m' true r1' with
                      | ok dd r2' => exact variants_lineEnd hv1 (variant_lineEnd hv2)
                      | fail => rw [hv2] at hv; cases hv
                      | fuel => rw [hv2] at hv; cases hv
                    | fail => rw [hv1] at hv; cases hv
                    | fuel => rw [hv1] at hv; cases hv
                -- it is a real line break (a variant key must follow)
                have hT := lineEnd_eq_skipEol s (skipBlankInline s (skipBlank s q + 1 + 1))
                cases hse : skipEol s (skipBlankInline s (skipBlank s q + 1 + 1)) with
                | none =>
                  exfalso
                  rw [hse] at hT
                  simp only at hT
                  split at hT
                  · rename_i hsz
                    -- end of input: no variant can follow
                    have hnil : rest s (skipBlankInline s (skipBlank s q + 1 + 1)) = [] := rest_eq_nil_iff.mpr hsz
                    rw [hnil] at hv
                    cases m with
                    | zero => simp [variantList] at hv
                    | succ m' =>
                      simp only [variantList] at hv
                      cases m' with
                      | zero => simp [variants] at hv
                      | succ m'' =>
                        cases m'' with
                        | zero => simp [variants, variant] at hv
                        | succ m3 =>
                          simp [variants, variant, lineEnd, blankOpt, SpecGrammar.variantKey] at hv
                  · rw [hT] at hle; simp at hle
                | some q3 =>
                  rw [hse] at hT
                  simp only at hT
                  have hq3 := skipEol_some hse
                  have hq3s : q3 ≤ s.size := ((skipEol_after hse).le_size hq2s)
                  have hq4 := skipBlank_ge s q3
                  have hpp : rest s (skipBlank s q3) = blankOpt (rest s (skipBlankInline s (skipBlank s q + 1 + 1))) := by
                    rw [blankOpt_lineEnd hT, blankOpt_eq_skipBlank]
                  obtain ⟨vs', qe, v1, v2, v3, v4⟩ := hvl n2 (skipBlank s q3) _ vs r3 r5 hv hclose hpp
                    (skipBlank_le_size hq3s) (by omega)
                  obtain ⟨h125, hr5⟩ := rest_cons_inv v3
                  have hqe := get_lt h125
                  have hsbi : skipBlankInline s qe = qe := by
                    apply rest_inj ((skipBlankInline_after s qe).le_size v4) v4
                    rw [← spaces_eq_skipBlankInline, v3]
                    exact spaces_cons_ne _ (by decide)
                  have hge : getExpression s (n2 + 1) (skipBlank s (p + 1)) = .ok (.select e' vs') qe := by
                    simp only [getExpression, g1]
                    have c1 : isCurrentByte s (skipBlank s q) 45 = true := by simp [isCurrentByte, h45]
                    simp only [c1, h62, beq_self_eq_true, Bool.not_true, Bool.or_self, Bool.false_eq_true, if_false,
                      hse, v1]
                    rw [← g2] at hsel
                    cases e' with
                    | str v => rfl
                    | num v => rfl
                    | var v => rfl
                    | fn a b c => rfl
                    | msg a b => rw [jI_msg] at hsel; simp [selectorOk] at hsel
                    | placeable z => rw [jI_placeable] at hsel; simp [selectorOk] at hsel
                    | term a b c =>
                      cases b with
                      | some b' => rfl
                      | none =>
                        cases c with
                        | none => rw [jI_term_none] at hsel; simp [selectorOk] at hsel
                        | some pn => obtain ⟨p1, p2⟩ := pn; rw [jI_term_some] at hsel; simp [selectorOk] at hsel
                  refine ⟨.select e' vs', qe + 1, ?_, by rw [jE_select, g2, v2], by omega, hr5⟩
                  simp [getPlaceable, hge, hsbi, expectByte, isCurrentByte, h125]
              | fail => rw [hv] at hbody; cases hbody
              | fuel => rw [hv] at hbody; cases hbody
            · cases hbody
          · -- plain InlineExpression
            rename_i hnoarrow
            injection hbody with e1 e2; subst e1; subst e2
            have hF : Follow r1 := ⟨125, _, hclose, by decide, by decide, by decide⟩
            obtain ⟨e', q, g1, g2, g3, g4⟩ := hi n2 _ e r1 hie hF hp1 (by omega)
            rw [g4, blankOpt_eq_skipBlank] at hclose
            obtain ⟨h125, hr5⟩ := rest_cons_inv hclose
            have hq1lt := get_lt h125
            have hnot : ¬ ∃ a b c, e' = .term a (some b) c := by
              rw [← jI_ctor_term_attr s e', g2]
              rintro ⟨a, b, c, habc⟩
              rw [habc] at hok
              simp [placeableOk] at hok
            have hsbi : skipBlankInline s (skipBlank s q) = skipBlank s q := by
              apply rest_inj ((skipBlankInline_after s _).le_size (skipBlank_le_size g3)) (skipBlank_le_size g3)
              rw [← spaces_eq_skipBlankInline, hclose]
              exact spaces_cons_ne _ (by decide)
            have c1 : isCurrentByte s (skipBlank s q) 45 = false := by simp [isCurrentByte, h125]
            have hge : getExpression s (n2 + 1) (skipBlank s (p + 1)) = .ok (.inline e') (skipBlank s q) := by
              simp only [getExpression, g1, c1, Bool.not_false, Bool.true_or, if_true]
              split
              · rename_i a b c; exact absurd ⟨a, b, c, rfl⟩ hnot
              · rfl
            refine ⟨.inline e', skipBlank s q + 1, ?_, by rw [jE_inline, g2], by omega, hr5⟩
            simp only [getPlaceable, hge, hsbi, expectByte, isCurrentByte, h125, beq_self_eq_true, if_true]
            split
            · rename_i a b c heq; injection heq with heq; exact absurd ⟨a, b, c, heq⟩ hnot
            · simp
        · cases hP
      · cases hP
    · cases hP
    · cases hP
  | fail => rw [hie] at hP; cases hP
  | fuel => rw [hie] at hP; cases hP


/-! ## the expression layer, assembled -/

/-- all expression-level productions at spec fuel `m` -/
structure ExprRef (s : Src) (m : Nat) : Prop where
  inline : InlineRef s m
  placeable : PlaceableRef s m
  callArgs : CallArgsRef s m
  argIter : ArgIterRef s m
  argList : ArgListRef s m
  variantIter : VariantIterRef s m
  variants : VariantsRef s m
  variantList : VariantListRef s m

theorem exprRef_zero (s : Src) : ExprRef s 0 where
  inline := by intro n p x r h; simp [inlineExpression] at h
  placeable := by intro n p x r h; simp [inlinePlaceable] at h
  callArgs := by intro n p pos named r h; simp [callArguments] at h
  argIter := by intro n p a r t pos0 named0 P N sep h; simp [argument] at h
  argList := by intro n p args r1 r2 pos0 named0 P N h; simp [argumentList] at h
  variantIter := by intro n pp i d v r4 hd acc h; simp [variant] at h
  variants := by intro n pp i vs r1 hd acc h; simp [variants] at h
  variantList := by intro n pp i vs r4 r5 h; simp [variantList] at h

theorem exprRef_step {s : Src} (hs : AsciiThenBoundary s) {m : Nat} (h : ExprRef s m) (hpat : PatternRef s m) :
    ExprRef s (m + 1) where
  inline := inline_step hs h.callArgs h.placeable
  placeable := placeable_step hs h.inline h.variantList
  callArgs := callArgs_step h.argList
  argIter := argIter_step hs h.inline
  argList := argList_step h.argIter h.argList
  variantIter := variantIter_step hs hpat
  variants := variants_step h.variantIter h.variants
  variantList := variantList_step h.variantIter h.variants

/-- **Expression layer (T2).** If patterns refine (at every spec fuel), so do inline expressions, call
arguments with their validity rules, placeables, select expressions and variant lists: wherever the
grammar's production succeeds, the parser model returns the same tree (spans resolved, text joined) and
stops at the same place. -/
theorem exprRef_of_pattern {s : Src} (hs : AsciiThenBoundary s) (hpat : ∀ m, PatternRef s m) : ∀ m, ExprRef s m := by
  intro m
  induction m with
  | zero => exact exprRef_zero s
  | succ m ih => exact exprRef_step hs ih (hpat m)

end FluentProofs.SpecRefine
