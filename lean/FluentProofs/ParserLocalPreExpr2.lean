import FluentProofs.ParserLocalPreExpr
/-!
# Locality of the parser, PREFIX family, part 4: the pattern functions (touch mode) and the joint induction
-/
namespace FluentProofs.Parser
open FluentModel.Syntax

section
variable {n : Nat} {s₁ s₂ : Src}

/-- a successful placeable ends just after a `}` -/
theorem pre_getPlaceable_close {s : Src} {f p : Nat} {e : Expr Span} {q : Nat} (h : getPlaceable s f p = .ok e q) :
    ∃ q', q = q' + 1 ∧ s[q']? = some 125 := by
  cases f with
  | zero => simp [getPlaceable] at h
  | succ f =>
    simp only [getPlaceable] at h
    rcases he : getExpression s f (skipBlank s p) with ⟨exp, q0⟩ | ⟨e1, q1⟩ | m' | _ <;> simp only [he] at h <;>
      try contradiction
    rcases hx : expectByte s (skipBlankInline s q0) 125 with ⟨u, q2⟩ | ⟨e1, q2⟩ | m' | _ <;> simp only [hx] at h <;>
      try contradiction
    obtain ⟨rfl, hb⟩ := pre_expectByte_ok hx
    split at h
    · contradiction
    · injection h with _ h2
      exact ⟨_, h2.symm, hb⟩

theorem survivesOf_pre (h : Pre n s₁ s₂) (start : Nat) {stop : Nat} (nb : Bool) (hs : stop ≤ n) :
    survivesOf s₂ start stop nb = survivesOf s₁ start stop nb := by
  unfold survivesOf
  rw [slice_pre h start hs]
  cases nb with
  | false => rfl
  | true =>
    simp only [if_true]
    cases hsl : slice s₁ start stop with
    | none => rfl
    | some sp =>
      obtain ⟨rfl, _⟩ := slice_eq_some hsl
      simp only [Option.map_some]
      rw [trimEnd_pre h hs]

theorem st2Of_pre (h : Pre n s₁ s₂) (st : PatState) (p indent start : Nat) {stop : Nat} (nb : Bool) (term : Termination)
    (hs : stop ≤ n) : st2Of s₂ st p indent start stop nb term = st2Of s₁ st p indent start stop nb term := by
  unfold st2Of
  rw [survivesOf_pre h start nb hs]

theorem st2Of_PSn {s : Src} {st st2 : PatState} {p indent start stop : Nat} {nb : Bool} {term : Termination}
    (h : st2Of s st p indent start stop nb term = some st2) (hst : PSn n st) (hs : stop ≤ n) : PSn n st2 := by
  unfold st2Of at h
  simp only [] at h
  split at h
  · split at h
    · split at h
      · rename_i e sv he hsv
        injection h with h
        subst h
        intro a b ind r hm
        simp only [List.mem_append, List.mem_singleton] at hm
        rcases hm with hm | hm
        · exact hst a b ind r hm
        · unfold elOf at he
          split at he
          · unfold usub at he
            split at he
            · simp only [Option.map_some, Option.some.injEq] at he
              rw [← he] at hm
              injection hm with _ h2
              omega
            · simp at he
          · simp only [Option.some.injEq] at he
            rw [← he] at hm
            injection hm with _ h2
            omega
      · cases h
    · injection h with h; subst h; exact hst
  · injection h with h; subst h; exact hst

theorem patternLoop_pstep (h : Pre n s₁ s₂) {f : Nat} (IH : PSpecs n s₁ s₂ f) (st : PatState) (p : Nat) (st' : PatState)
    (q : Nat) (hp : p ≤ n) (hrole : p = n → st.role = .lineStart) (hst : PSn n st)
    (hr : getPatternLoop s₁ (f + 1) st p = .ok st' q) (m : Nat) (hm : f ≤ m) :
    q ≤ n ∧ PSn n st' ∧ getPatternLoop s₂ (m + 1) st p = .ok st' q := by
  simp only [getPatternLoop] at hr ⊢
  by_cases hpn : p = n
  · -- at the seam: `s₁` is at its end, `s₂` sees a line that does not continue the pattern
    have hrl := hrole hpn
    rw [hpn] at hr ⊢
    rw [if_neg (by rw [h.size]; omega)] at hr
    have hq : q ≤ n := by injection hr with _ h2; omega
    have hst' : PSn n st' := by injection hr with h1 _; rw [← h1]; exact hst
    refine ⟨hq, hst', ?_⟩
    by_cases hlt : n < s₂.size
    · rw [if_pos hlt]
      have e0 : isCurrentByte s₂ n 123 = false := by
        have := h.ne_n (c := 123) (by decide)
        simp [isCurrentByte, this]
      have e1 : skipBlankInline s₂ n = n := pre_skipBlankInlineGo_stop (h.ne_n (by decide)) _
      obtain ⟨b, e2⟩ : ∃ b, s₂[n]? = some b := ⟨s₂[n], by simp [hlt]⟩
      have e3 := not_isEol_n h hlt
      simp only [e0, hrl, e1, e2, e3, Nat.sub_self, beq_self_eq_true, Bool.false_eq_true, if_false, if_true,
        Bool.not_false]
      exact hr
    · rw [if_neg hlt]; exact hr
  · have hlt : p < n := by omega
    rw [if_pos (show p < s₁.size by rw [h.size]; exact hlt)] at hr
    rw [if_pos (h.lt₂ hlt), h.cur_lt hlt]
    split at hr
    · -- a placeable: it ends at a `}` before `n`
      rename_i hc; rw [if_pos hc]
      rcases hpl : getPlaceable s₁ f (p + 1) with ⟨e, q1⟩ | ⟨e1, q1⟩ | m' | _ <;> simp only [hpl] at hr <;>
        try contradiction
      obtain ⟨q', rfl, hcl⟩ := pre_getPlaceable_close hpl
      have hq1 : q' + 1 < n := h.succ_lt hcl (by decide)
      have key : ∀ st1 : PatState, st1.elements = st.elements →
          PSn n { st1 with lastNonBlank := some st1.elements.length, keptCommonIndent := st1.commonIndent,
                           elements := st1.elements ++ [.placeable e], role := .continuation } := by
        intro st1 hel a b ind r hmem
        simp only [List.mem_append, List.mem_singleton] at hmem
        rcases hmem with hmem | hmem
        · exact hst a b ind r (hel ▸ hmem)
        · cases hmem
      obtain ⟨c1, c2, c3⟩ := IH.patternLoop _ _ _ _ (Nat.le_of_lt hq1) (fun e => absurd e (by omega))
        (key _ (by split <;> rfl)) hr
      rw [IH.placeable _ _ _ hpl hq1 m hm]
      exact ⟨c1, c2, c3 m hm⟩
    · rename_i hc; rw [if_neg hc]
      have hp1 := skipBlankInline_lt_n h hlt
      have hge := (skipBlankInline_after s₁ p).le
      rw [skipBlankInline_pre h hp, h.get _ hp1, isEol_pre h hp1]
      split at hr
      · -- the pattern ends here
        have hq : q ≤ n := by
          injection hr with _ h2
          rw [← h2]
          split
          · split
            · omega
            · split <;> omega
          · omega
        have hst' : PSn n st' := by injection hr with h1 _; rw [← h1]; exact hst
        exact ⟨hq, hst', hr⟩
      · rename_i indent p1 hpre
        have hp1' : p1 < n := by
          split at hpre
          · split at hpre
            · split at hpre <;> split at hpre <;> simp at hpre <;> obtain ⟨_, rfl⟩ := hpre <;> exact hp1
            · simp at hpre
          · simp at hpre
            obtain ⟨_, rfl⟩ := hpre
            exact hlt
        clear hpre
        rw [getTextSlice_pre h hp1']
        rcases hts : getTextSlice s₁ p1 with ⟨⟨start, stop, nb, term⟩, q1⟩ | ⟨e1, q1⟩ | m' | _ <;> simp only [hts] at hr <;>
          try contradiction
        obtain ⟨t1, t2, t3, t4⟩ := getTextSlice_n h hp1' hts
        simp only []
        split at hr
        · rename_i st2 hst2
          have e2 : st2Of s₁ st p indent start stop nb term = some st2 := hst2
          have e3 : st2Of s₂ st p indent start stop nb term = some st2 := by
            rw [st2Of_pre h _ _ _ _ _ _ t2]; exact e2
          have hps : PSn n st2 := st2Of_PSn e2 hst t2
          have hih := fun a b => IH.patternLoop _ _ _ _ t3 a b hr
          obtain ⟨c1, c2, c3⟩ := hih (fun e => by rw [t4 e]) hps
          refine ⟨c1, c2, ?_⟩
          split
          · rename_i st2' hst2'
            have e4 : st2Of s₂ st p indent start stop nb term = some st2' := hst2'
            rw [e3] at e4
            injection e4 with e4
            subst e4
            exact c3 m hm
          · rename_i hst2'
            have e4 : st2Of s₂ st p indent start stop nb term = none := hst2'
            rw [e3] at e4
            cases e4
        · contradiction

theorem pattern_pstep (h : Pre n s₁ s₂) {f : Nat} (IH : PSpecs n s₁ s₂ f) (p : Nat) (v : Option (Pattern Span)) (q : Nat)
    (hp : p < n) (hr : getPattern s₁ (f + 1) p = .ok v q) (m : Nat) (hm : f ≤ m) :
    q ≤ n ∧ getPattern s₂ (m + 1) p = .ok v q := by
  have key : ∀ role p2, p2 ≤ n → (p2 = n → role = TextPos.lineStart) →
      (match getPatternLoop s₁ f ⟨[], none, none, role, none⟩ p2 with
        | .ok st q =>
          (match st.lastNonBlank with
           | some lnb =>
             (match finishElements s₁ st.keptCommonIndent lnb 0 st.elements with
              | some els => .ok (some els) q
              | none => .panic "get_pattern slice")
           | none => .ok none q)
        | .err e q => .err e q
        | .panic m => .panic m
        | .fuel => .fuel) = R.ok v q →
      q ≤ n ∧
      (match getPatternLoop s₂ m ⟨[], none, none, role, none⟩ p2 with
        | .ok st q =>
          (match st.lastNonBlank with
           | some lnb =>
             (match finishElements s₂ st.keptCommonIndent lnb 0 st.elements with
              | some els => .ok (some els) q
              | none => .panic "get_pattern slice")
           | none => .ok none q)
        | .err e q => .err e q
        | .panic m => .panic m
        | .fuel => .fuel) = R.ok v q := by
    intro role p2 hp2 hrl hk
    rcases hl : getPatternLoop s₁ f ⟨[], none, none, role, none⟩ p2 with ⟨st, q'⟩ | ⟨e1, q1⟩ | m' | _ <;>
      simp only [hl] at hk <;> try contradiction
    obtain ⟨c1, c2, c3⟩ := IH.patternLoop _ _ _ _ hp2 hrl (by intro a b i r hmem; cases hmem) hl
    have hq : q' = q := by
      split at hk
      · split at hk
        · injection hk
        · contradiction
      · injection hk
    rw [c3 m hm]
    simp only [finishElements_pre h _ _ _ _ c2]
    exact ⟨by omega, hk⟩
  simp only [getPattern] at hr ⊢
  have hp1 := skipBlankInline_lt_n h hp
  rw [skipBlankInline_pre h (Nat.le_of_lt hp), skipEol_pre h (Nat.le_of_lt hp1)]
  cases hE : skipEol s₁ (skipBlankInline s₁ p) with
  | none =>
    rw [hE] at hr
    simp only [] at hr ⊢
    exact key _ _ (Nat.le_of_lt hp1) (fun e => absurd e (by omega)) hr
  | some q0 =>
    rw [hE] at hr
    have hq0 := skipEol_le_n h hE
    simp only [] at hr ⊢
    rw [skipBlankBlock_pre h hq0]
    exact key _ _ (skipBlankBlock_le_n h hq0) (fun _ => rfl) hr

theorem pspecs_all (h : Pre n s₁ s₂) (f : Nat) : PSpecs n s₁ s₂ f := by
  induction f with
  | zero =>
    exact {
      patternLoop := fun st p st' q _ _ _ hr => by simp [getPatternLoop] at hr
      pattern := fun p v q _ hr => by simp [getPattern] at hr
      placeable := fun p v q hr => by simp [getPlaceable] at hr
      expression := fun p v q hr => by simp [getExpression] at hr
      inline := fun ol p v q hr => by simp [getInline] at hr
      callArguments := fun p v q hr => by simp [getCallArguments] at hr
      callArgsLoop := fun pos named p v q _ hr => by simp [getCallArgsLoop] at hr
      variants := fun hd acc p v q hr => by simp [getVariants] at hr }
  | succ f ih =>
    have succ_of : ∀ {m : Nat}, f + 1 ≤ m → ∃ m', m = m' + 1 ∧ f ≤ m' := fun {m} hm => ⟨m - 1, by omega, by omega⟩
    exact {
      patternLoop := fun st p st' q h1 h2 h3 hr =>
        ⟨(patternLoop_pstep h ih st p st' q h1 h2 h3 hr f (Nat.le_refl _)).1,
         (patternLoop_pstep h ih st p st' q h1 h2 h3 hr f (Nat.le_refl _)).2.1,
         fun m hm => by
           obtain ⟨m', rfl, hm'⟩ := succ_of hm
           exact (patternLoop_pstep h ih st p st' q h1 h2 h3 hr m' hm').2.2⟩
      pattern := fun p v q h1 hr =>
        ⟨(pattern_pstep h ih p v q h1 hr f (Nat.le_refl _)).1,
         fun m hm => by
           obtain ⟨m', rfl, hm'⟩ := succ_of hm
           exact (pattern_pstep h ih p v q h1 hr m' hm').2⟩
      placeable := fun p v q hr hq m hm => by
        obtain ⟨m', rfl, hm'⟩ := succ_of hm
        exact placeable_pstep h ih p v q hr hq m' hm'
      expression := fun p v q hr hq m hm => by
        obtain ⟨m', rfl, hm'⟩ := succ_of hm
        exact expression_pstep h ih p v q hr hq m' hm'
      inline := fun ol p v q hr hq m hm => by
        obtain ⟨m', rfl, hm'⟩ := succ_of hm
        exact inline_pstep h ih ol p v q hr hq m' hm'
      callArguments := fun p v q hr hq m hm => by
        obtain ⟨m', rfl, hm'⟩ := succ_of hm
        exact callArguments_pstep h ih p v q hr hq m' hm'
      callArgsLoop := fun pos named p v q hn hr hq m hm => by
        obtain ⟨m', rfl, hm'⟩ := succ_of hm
        exact callArgsLoop_pstep h ih pos named p v q hn hr hq m' hm'
      variants := fun hd acc p v q hr hq m hm => by
        obtain ⟨m', rfl, hm'⟩ := succ_of hm
        exact variants_pstep h ih hd acc p v q hr hq m' hm' }

/-- **`get_pattern` on a prefix**: a successful run on `s₁` started before `n` ends at or before `n` and is reproduced
on `s₂` with any fuel at least as large -/
theorem getPattern_pre (h : Pre n s₁ s₂) {f p : Nat} {v : Option (Pattern Span)} {q : Nat} (hp : p < n)
    (hr : getPattern s₁ f p = .ok v q) : q ≤ n ∧ ∀ m, f ≤ m → getPattern s₂ m p = .ok v q :=
  (pspecs_all h f).pattern p v q hp hr

end
end FluentProofs.Parser
