import FluentProofs.SpecDedent
/-!
# Patterns as flat item sequences (C02, pattern layer, part 1)

A pattern — a list of text elements and placeables — is determined, once adjacent text is joined and empty
text dropped, by its *flattening*: the sequence of its bytes and placeables.  Flattening turns the
abstract-syntax pass of the grammar (`finishPattern`) into plain list operations: drop the leading `\n`s,
drop the trailing white space.
-/
namespace FluentProofs.PatFlat
open FluentModel FluentModel.Syntax FluentModel.SpecGrammar FluentProofs.SpecDedent

abbrev Item := UInt8 ⊕ Expr Bytes

def chars (t : Bytes) : List Item := t.map Sum.inl

def flat : List (PatElem Bytes) → List Item
  | [] => []
  | .text t :: l => chars t ++ flat l
  | .placeable e :: l => Sum.inr e :: flat l

def isNl : Item → Bool
  | .inl b => b == 10
  | .inr _ => false

def isWs : Item → Bool
  | .inl b => isTrailingWs b
  | .inr _ => false

def trimL (l : List Item) : List Item := l.dropWhile isNl
def trimR (l : List Item) : List Item := (l.reverse.dropWhile isWs).reverse

theorem flat_append (a b : List (PatElem Bytes)) : flat (a ++ b) = flat a ++ flat b := by
  induction a with
  | nil => rfl
  | cons e t ih => cases e <;> simp [flat, ih]

theorem chars_append (a b : Bytes) : chars (a ++ b) = chars a ++ chars b := by simp [chars]

theorem flat_joinAdjacent (l : List (PatElem Bytes)) : flat (joinAdjacent l) = flat l := by
  induction l with
  | nil => rfl
  | cons e t ih =>
    cases e with
    | placeable x => simp [joinAdjacent, flat, ih]
    | text a =>
      simp only [joinAdjacent]
      cases hj : joinAdjacent t with
      | nil => rw [hj] at ih; simp [flat, ← ih]
      | cons e2 r =>
        rw [hj] at ih
        cases e2 with
        | text b => simp only [flat] at ih ⊢; rw [chars_append, List.append_assoc, ih]
        | placeable y => simp only [flat] at ih ⊢; rw [ih]

theorem flat_filter (l : List (PatElem Bytes)) : flat (l.filter nonEmptyEl) = flat l := by
  induction l with
  | nil => rfl
  | cons e t ih =>
    cases e with
    | placeable x => simp [List.filter_cons, nonEmptyEl, flat, ih]
    | text a =>
      simp only [List.filter_cons, nonEmptyEl]
      cases a with
      | nil => simp [flat, chars, ih]
      | cons b r => simp [flat, ih]


/-- a flattening that does not begin with a byte (it is empty or begins with a placeable) -/
def NoLeadChar (l : List Item) : Prop := ∀ b t, l ≠ Sum.inl b :: t

theorem noLeadChar_nil : NoLeadChar [] := by intro b t h; cases h
theorem noLeadChar_inr (e : Expr Bytes) (l : List Item) : NoLeadChar (Sum.inr e :: l) := by intro b t h; cases h

theorem flat_tail_noLead {a : Bytes} {l : List (PatElem Bytes)} (h : NoAdjText (.text a :: l)) : NoLeadChar (flat l) := by
  cases l with
  | nil => exact noLeadChar_nil
  | cons e r =>
    cases e with
    | text b => simp [NoAdjText] at h
    | placeable x => exact noLeadChar_inr _ _

theorem dropWhile_chars (t : Bytes) (X : List Item) (hX : NoLeadChar X) :
    (chars t ++ X).dropWhile isNl = chars (t.dropWhile (· == 10)) ++ X := by
  induction t with
  | nil =>
    simp only [chars, List.map_nil, List.nil_append, List.dropWhile_nil]
    cases X with
    | nil => rfl
    | cons x r =>
      cases x with
      | inl b => exact absurd rfl (hX b r)
      | inr e => simp [List.dropWhile_cons, isNl]
  | cons b r ih =>
    simp only [chars, List.map_cons, List.cons_append, List.dropWhile_cons, isNl]
    by_cases hb : (b == 10) = true
    · simp only [hb, if_true]; exact ih
    · simp [hb, chars]

theorem flat_trimFirst {l : List (PatElem Bytes)} (h : NoAdjText l) : flat (trimFirst l) = trimL (flat l) := by
  cases l with
  | nil => rfl
  | cons e r =>
    cases e with
    | placeable x => simp [trimFirst, flat, trimL, List.dropWhile_cons, isNl]
    | text t =>
      simp only [trimFirst, flat, trimL]
      rw [dropWhile_chars t _ (flat_tail_noLead h)]

theorem chars_reverse (t : Bytes) : (chars t).reverse = chars t.reverse := by simp [chars]

theorem dropWhile_isWs_chars (t : Bytes) : (chars t).dropWhile isWs = chars (t.dropWhile isTrailingWs) := by
  induction t with
  | nil => rfl
  | cons b r ih =>
    simp only [chars, List.map_cons, List.dropWhile_cons, isWs]
    by_cases hb : isTrailingWs b = true
    · simp only [hb, if_true]; exact ih
    · simp [hb]

theorem trimR_chars (t : Bytes) : trimR (chars t) = chars (dropTrailingWs t) := by
  unfold trimR dropTrailingWs
  rw [chars_reverse, dropWhile_isWs_chars, chars_reverse]

theorem trimR_append_of_ne (A Y : List Item) (h : trimR Y ≠ []) : trimR (A ++ Y) = A ++ trimR Y := by
  unfold trimR at h ⊢
  rw [List.reverse_append]
  have : (Y.reverse ++ A.reverse).dropWhile isWs = Y.reverse.dropWhile isWs ++ A.reverse := by
    generalize Y.reverse = Z at h ⊢
    induction Z with
    | nil => simp at h
    | cons z r ih =>
      simp only [List.cons_append, List.dropWhile_cons]
      by_cases hz : isWs z = true
      · simp only [hz, if_true]
        apply ih
        simpa [List.dropWhile_cons, hz] using h
      · simp [hz]
  rw [this]
  simp

theorem trimR_inr_cons (e : Expr Bytes) (Y : List Item) : trimR (Sum.inr e :: Y) = Sum.inr e :: trimR Y := by
  by_cases h : trimR Y = []
  · rw [h]
    unfold trimR at h ⊢
    have hY : Y.reverse.dropWhile isWs = [] := by simpa using h
    rw [List.reverse_cons, List.dropWhile_append, hY]
    simp [List.dropWhile_cons, isWs]
  · exact trimR_append_of_ne [Sum.inr e] Y h

theorem trimR_ne_of_inr (e : Expr Bytes) (Y : List Item) : trimR (Sum.inr e :: Y) ≠ [] := by
  rw [trimR_inr_cons]; simp

theorem flat_trimLast {l : List (PatElem Bytes)} (h : NoAdjText l) : flat (trimLast l) = trimR (flat l) := by
  induction l with
  | nil => rfl
  | cons e rest ih =>
    cases rest with
    | nil =>
      cases e with
      | text t => simp only [trimLast, flat, List.append_nil]; rw [trimR_chars]
      | placeable x => simp only [trimLast, flat]; rw [trimR_inr_cons]; rfl
    | cons e2 r =>
      have ht := ih (noAdjText_tail h)
      have hun : trimLast (e :: e2 :: r) = e :: trimLast (e2 :: r) := by
        cases e <;> simp [trimLast]
      rw [hun]
      cases e with
      | placeable x => simp only [flat]; rw [ht, trimR_inr_cons]
      | text a =>
        cases e2 with
        | text b => simp [NoAdjText] at h
        | placeable y =>
          simp only [flat] at ht ⊢
          rw [ht, trimR_append_of_ne _ _ (trimR_ne_of_inr _ _)]

/-- the abstract-syntax pass on flattenings: dedent, drop the leading line breaks, drop the trailing
white space -/
theorem flat_finishPattern (els : List RawEl) :
    flat (finishPattern els) = trimR (trimL (flat (els.map (dedent ((commonIndent els).getD 0))))) := by
  unfold finishPattern
  simp only
  rw [flat_filter, flat_trimLast (trimFirst_noAdj (joinAdjacent_noAdj _)),
    flat_trimFirst (joinAdjacent_noAdj _), flat_joinAdjacent]


theorem chars_prefix_unique (t u : Bytes) (X Y : List Item) (hX : NoLeadChar X) (hY : NoLeadChar Y)
    (h : chars t ++ X = chars u ++ Y) : t = u ∧ X = Y := by
  induction t generalizing u with
  | nil =>
    cases u with
    | nil => exact ⟨rfl, by simpa [chars] using h⟩
    | cons b r =>
      simp only [chars, List.map_nil, List.nil_append, List.map_cons, List.cons_append] at h
      exact absurd h (hX _ _)
  | cons a t ih =>
    cases u with
    | nil =>
      simp only [chars, List.map_nil, List.nil_append, List.map_cons, List.cons_append] at h
      exact absurd h.symm (hY _ _)
    | cons b r =>
      simp only [chars, List.map_cons, List.cons_append] at h
      injection h with h1 h2
      injection h1 with h1
      obtain ⟨e1, e2⟩ := ih r h2
      exact ⟨by rw [h1, e1], e2⟩

/-- joined, empty-text-free patterns are determined by their flattening -/
theorem flat_injective : ∀ (a b : List (PatElem Bytes)), NoAdjText a → NoAdjText b →
    (∀ e ∈ a, nonEmptyEl e = true) → (∀ e ∈ b, nonEmptyEl e = true) → flat a = flat b → a = b
  | [], b, _, _, _, hb, h => by
    cases b with
    | nil => rfl
    | cons e r =>
      cases e with
      | placeable x => simp [flat] at h
      | text t =>
        have := hb (.text t) (by simp)
        cases t with
        | nil => simp [nonEmptyEl] at this
        | cons c t' => simp [flat, chars] at h
  | .placeable x :: a', b, ha, hb, hna, hnb, h => by
    cases b with
    | nil => simp [flat] at h
    | cons e r =>
      cases e with
      | placeable y =>
        simp only [flat] at h
        injection h with h1 h2
        injection h1 with h1
        subst h1
        rw [flat_injective a' r (noAdjText_tail ha) (noAdjText_tail hb)
          (fun e he => hna e (List.mem_cons_of_mem _ he)) (fun e he => hnb e (List.mem_cons_of_mem _ he)) h2]
      | text t =>
        have := hnb (.text t) (by simp)
        cases t with
        | nil => simp [nonEmptyEl] at this
        | cons c t' => simp [flat, chars] at h
  | .text t :: a', b, ha, hb, hna, hnb, h => by
    cases b with
    | nil =>
      have := hna (.text t) (by simp)
      cases t with
      | nil => simp [nonEmptyEl] at this
      | cons c t' => simp [flat, chars] at h
    | cons e r =>
      cases e with
      | placeable y =>
        have := hna (.text t) (by simp)
        cases t with
        | nil => simp [nonEmptyEl] at this
        | cons c t' => simp [flat, chars] at h
      | text u =>
        simp only [flat] at h
        obtain ⟨e1, e2⟩ := chars_prefix_unique t u _ _ (flat_tail_noLead ha) (flat_tail_noLead hb) h
        subst e1
        rw [flat_injective a' r (noAdjText_tail ha) (noAdjText_tail hb)
          (fun e he => hna e (List.mem_cons_of_mem _ he)) (fun e he => hnb e (List.mem_cons_of_mem _ he)) e2]


/-! ## the parser's side: `joinPat` -/

/-- flattening with `joinText` applied inside the placeables -/
def flatJ : List (PatElem Bytes) → List Item
  | [] => []
  | .text t :: l => chars t ++ flatJ l
  | .placeable e :: l => Sum.inr e.joinText :: flatJ l

theorem flat_joinPat (l : List (PatElem Bytes)) : flat (joinPat l) = flatJ l := by
  induction l with
  | nil => simp [joinPat, flat, flatJ]
  | cons e t ih =>
    cases e with
    | placeable x => simp [joinPat, flat, flatJ, ih]
    | text a =>
      simp only [joinPat, flatJ]
      cases hj : joinPat t with
      | nil => rw [hj] at ih; simp [flat, ← ih]
      | cons e2 r =>
        rw [hj] at ih
        cases e2 with
        | text b => simp only [flat] at ih ⊢; rw [chars_append, List.append_assoc, ih]
        | placeable y => simp only [flat] at ih ⊢; rw [ih]

theorem joinPat_noAdj (l : List (PatElem Bytes)) : NoAdjText (joinPat l) := by
  induction l with
  | nil => simp [joinPat, NoAdjText]
  | cons e rest ih =>
    cases e with
    | placeable x => simp only [joinPat]; exact noAdjText_cons_placeable ih
    | text a =>
      simp only [joinPat]
      cases hj : joinPat rest with
      | nil => trivial
      | cons e2 r =>
        rw [hj] at ih
        cases e2 with
        | text b =>
          simp only
          apply noAdjText_cons_text (noAdjText_tail ih)
          intro c r' hr
          subst hr
          simp [NoAdjText] at ih
        | placeable y =>
          simp only
          apply noAdjText_cons_text ih
          intro c r' hr
          cases hr

theorem joinPat_nonEmpty (l : List (PatElem Bytes)) (h : ∀ e ∈ l, nonEmptyEl e = true) :
    ∀ e ∈ joinPat l, nonEmptyEl e = true := by
  induction l with
  | nil => intro e he; simp [joinPat] at he
  | cons x rest ih =>
    have hrest := ih (fun e he => h e (List.mem_cons_of_mem _ he))
    cases x with
    | placeable y =>
      intro e he
      simp only [joinPat, List.mem_cons] at he
      rcases he with rfl | he
      · rfl
      · exact hrest e he
    | text a =>
      have ha : a ≠ [] := by
        have := h (.text a) (by simp)
        intro hn; subst hn; simp [nonEmptyEl] at this
      intro e he
      simp only [joinPat] at he
      cases hj : joinPat rest with
      | nil =>
        rw [hj] at he
        simp only [List.mem_cons, List.not_mem_nil, or_false] at he
        subst he
        cases a with
        | nil => exact absurd rfl ha
        | cons b t => rfl
      | cons e2 r =>
        rw [hj] at he hrest
        cases e2 with
        | text b =>
          simp only [List.mem_cons] at he
          rcases he with rfl | he
          · cases a with
            | nil => exact absurd rfl ha
            | cons c t => rfl
          · exact hrest e (List.mem_cons_of_mem _ he)
        | placeable y =>
          simp only [List.mem_cons] at he
          rcases he with rfl | he
          · cases a with
            | nil => exact absurd rfl ha
            | cons c t => rfl
          · exact hrest e (by simpa using he)

/-- **normal-form criterion**: a joined parser pattern equals a grammar pattern as soon as their
flattenings agree -/
theorem joinPat_eq_of_flat (l : List (PatElem Bytes)) (h : ∀ e ∈ l, nonEmptyEl e = true) (els : List RawEl)
    (hf : flatJ l = flat (finishPattern els)) : joinPat l = finishPattern els :=
  flat_injective _ _ (joinPat_noAdj l) (finishPattern_noAdj els) (joinPat_nonEmpty l h) (finishPattern_nonEmpty els)
    (by rw [flat_joinPat, hf])

end FluentProofs.PatFlat
