import FluentModel.Util
import FluentProofs.Args
/-! `bytesLt` (Rust `str` order = lexicographic on UTF-8 bytes) is a strict total order. -/
namespace FluentModel
open Args

theorem bytesLt_irrefl : ∀ a : Bytes, bytesLt a a = false
  | [] => rfl
  | x :: xs => by
    have : ¬ x < x := by exact UInt8.lt_irrefl x
    simp [bytesLt, this, bytesLt_irrefl xs]

theorem bytesLt_trans : ∀ a b c : Bytes, bytesLt a b = true → bytesLt b c = true → bytesLt a c = true
  | [], [], _, h, _ => by simp [bytesLt] at h
  | [], _ :: _, [], _, h => by simp [bytesLt] at h
  | [], _ :: _, _ :: _, _, _ => by simp [bytesLt]
  | _ :: _, [], _, h, _ => by simp [bytesLt] at h
  | _ :: _, _ :: _, [], _, h => by simp [bytesLt] at h
  | x :: xs, y :: ys, z :: zs, h1, h2 => by
    unfold bytesLt at h1 h2 ⊢
    have ih := bytesLt_trans xs ys zs
    by_cases hxy : x < y
    · by_cases hyz : y < z
      · have : x < z := UInt8.lt_trans hxy hyz
        simp [this]
      · simp only [hyz, if_false] at h2
        by_cases hzy : z < y
        · simp [hzy] at h2
        · have : y = z := by
            apply UInt8.le_antisymm <;> simp_all [UInt8.not_lt]
          subst this; simp [hxy]
    · simp only [hxy, if_false] at h1
      by_cases hyx : y < x
      · simp [hyx] at h1
      · simp only [hyx, if_false] at h1
        have : x = y := by
          apply UInt8.le_antisymm <;> simp_all [UInt8.not_lt]
        subst this
        by_cases hxz : x < z
        · simp [hxz]
        · simp only [hxz, if_false] at h2 ⊢
          by_cases hzx : z < x
          · simp [hzx] at h2
          · simp only [hzx, if_false] at h2 ⊢
            exact ih h1 h2

theorem bytesLt_tri : ∀ a b : Bytes, bytesLt a b = false → bytesLt b a = false → a = b
  | [], [], _, _ => rfl
  | [], _ :: _, h, _ => by simp [bytesLt] at h
  | _ :: _, [], _, h => by simp [bytesLt] at h
  | x :: xs, y :: ys, h1, h2 => by
    unfold bytesLt at h1 h2
    by_cases hxy : x < y
    · simp [hxy] at h1
    · by_cases hyx : y < x
      · simp [hyx] at h2
      · simp only [hxy, hyx, if_false] at h1 h2
        have : x = y := by
          apply UInt8.le_antisymm <;> simp_all [UInt8.not_lt]
        subst this
        rw [bytesLt_tri xs ys h1 h2]

theorem bytesLt_strictTotal : StrictTotal bytesLt :=
  ⟨bytesLt_irrefl, bytesLt_trans, bytesLt_tri⟩

end FluentModel
