import FluentModel.BundleLocale
import FluentModel.Plural
/-!
# Only the first locale of a bundle's chain selects the plural rules

Theorems about `FluentModel.memoizerLocale` (the model of `locales.first().cloned().unwrap_or_default()` in
`FluentBundle::new` / `new_concurrent`): whatever follows the first locale has no influence on the locale the
formatters are created for, hence none on the plural category of any number.
-/
namespace FluentProofs.BundleLocale
open FluentModel

theorem memoizerLocale_cons (l : String) (rest : List String) : memoizerLocale (l :: rest) = l := rfl

theorem memoizerLocale_nil : memoizerLocale [] = "und" := rfl

/-- two chains with the same head bind the formatters to the same locale -/
theorem memoizerLocale_tail_irrelevant (l : String) (r₁ r₂ : List String) :
    memoizerLocale (l :: r₁) = memoizerLocale (l :: r₂) := rfl

/-- the plural category every select consults does not depend on the tail of the locale chain -/
theorem category_tail_irrelevant (l : String) (r₁ r₂ : List String) (n : Num.FluentNumber) :
    Plural.pluralCategory (memoizerLocale (l :: r₁)) n = Plural.pluralCategory (memoizerLocale (l :: r₂)) n := rfl

end FluentProofs.BundleLocale
