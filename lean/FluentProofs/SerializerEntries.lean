import FluentProofs.SerializerPattern
/-!
# Serializer lemmas, part 7: resources of single-line messages and terms (C04 / T2
`roundtrip_singleline_partial`)
-/
namespace FluentProofs.Ser
open FluentModel FluentModel.Syntax FluentModel.Syntax.Ser FluentProofs.Parser

/-! ## the serializer on simple entries -/

/-- the writer is at indent level 0 and its buffer does not end with `\r`: literals are appended -/
def Plain (w : Writer) : Prop := w.indentLevel = 0 ∧ endsWith w 13 = false

theorem writeLiteral_plain (w : Writer) (x : Bytes) (h : Plain w) : w.writeLiteral x = w.pushAll x := by
  obtain ⟨h1, h2⟩ := h
  apply Writer.ext'
  · cases h10 : endsWith w 10
    · rw [writeLiteral_mid_line w x h10]; simp [h2, Writer.pushAll]
    · rw [writeLiteral_after_newline w x h10]; simp [h1, spaces, Writer.pushAll]
  · simp

theorem plain_empty : Plain {} := ⟨rfl, rfl⟩

theorem newline_pushAll_tidy (w : Writer) (x : Bytes) (ht : tidy x = true) :
    (w.pushAll x).newline = w.pushAll (x ++ [10]) ∧ (w.indentLevel = 0 → Plain (w.pushAll (x ++ [10]))) := by
  have hx : x ≠ [] := by intro h0; subst h0; simp [tidy] at ht
  have h13 : endsWith (w.pushAll x) 13 = false := by
    rw [endsWith_pushAll _ _ _ hx]
    unfold tidy at ht
    split at ht
    · cases ht
    · rename_i b hb; simp at ht; simp [hb, ht.2]
  constructor
  · apply Writer.ext'
    · rw [newline_buffer, h13]; simp [Writer.pushAll]
    · simp
  · intro h0
    refine ⟨by simpa using h0, ?_⟩
    rw [endsWith_pushAll _ _ _ (by simp)]
    simp

/-- a message with a valid single-line value, no attributes, no comment -/
def validSimpleMessage (m : Message Bytes) : Bool :=
  validIdent m.id &&
    (match m.value with
     | some es => validSingleLine es
     | none => false) && m.attributes.isEmpty && m.comment.isNone

/-- a term with a valid single-line value, no attributes, no comment -/
def validSimpleTerm (t : Term Bytes) : Bool :=
  validIdent t.id && validSingleLine t.value && t.attributes.isEmpty && t.comment.isNone

def validSimpleEntry : Entry Bytes → Bool
  | .message m => validSimpleMessage m
  | .term t => validSimpleTerm t
  | _ => false

/-- the line written for a simple entry -/
def entryBytes : Entry Bytes → Bytes
  | .message m => m.id ++ [32, 61] ++ 32 :: (patBytes (m.value.getD []) ++ [10])
  | .term t => 45 :: (t.id ++ [32, 61] ++ 32 :: (patBytes t.value ++ [10]))
  | _ => []

def resBytes : List (Entry Bytes) → Bytes
  | [] => []
  | e :: es => entryBytes e ++ resBytes es

theorem validSingleLine_elems {es : List (PatElem Bytes)} (h : validSingleLine es = true) :
    ∀ e ∈ es, validElem e = true := by
  simp only [validSingleLine, Bool.and_eq_true, List.all_eq_true] at h
  exact h.1.1.1.2

theorem serMessage_simple (m : Message Bytes) (hv : validSimpleMessage m = true) (w : Writer) (hw : Plain w) :
    serMessage w m = some (w.pushAll (entryBytes (.message m))) ∧ Plain (w.pushAll (entryBytes (.message m))) := by
  obtain ⟨id, value, attrs, comment⟩ := m
  simp only [validSimpleMessage, Bool.and_eq_true, List.isEmpty_iff, Option.isNone_iff_eq_none] at hv
  obtain ⟨⟨⟨hid, hval⟩, rfl⟩, rfl⟩ := hv
  cases value with
  | none => simp at hval
  | some es =>
    simp only at hval
    have hve := validSingleLine_elems hval
    simp only [serMessage, lit_eq, serAttributes, List.isEmpty_nil, if_true, entryBytes, Option.getD_some]
    rw [join_tidy _ _ _ (validIdent_tidy hid)]
    obtain ⟨e1, t1⟩ := serPattern_eq es hve w (id ++ [32, 61]) (tidy_append _ _ (by decide))
    rw [e1]
    simp only [Option.map_some]
    rw [writeLiteral_plain w _ hw]
    obtain ⟨e2, p2⟩ := newline_pushAll_tidy w _ t1
    rw [e2]
    have e3 : id ++ [32, 61] ++ 32 :: patBytes es ++ [10] = id ++ [32, 61] ++ 32 :: (patBytes es ++ [10]) := by simp
    rw [e3] at p2 ⊢
    exact ⟨rfl, p2 hw.1⟩

theorem serTerm_simple (t : Term Bytes) (hv : validSimpleTerm t = true) (w : Writer) (hw : Plain w) :
    serTerm w t = some (w.pushAll (entryBytes (.term t))) ∧ Plain (w.pushAll (entryBytes (.term t))) := by
  obtain ⟨id, es, attrs, comment⟩ := t
  simp only [validSimpleTerm, Bool.and_eq_true, List.isEmpty_iff, Option.isNone_iff_eq_none] at hv
  obtain ⟨⟨⟨hid, hval⟩, rfl⟩, rfl⟩ := hv
  have hve := validSingleLine_elems hval
  simp only [serTerm, lit_eq, lit_minus, serAttributes, List.isEmpty_nil, if_true, entryBytes]
  rw [join_tidy _ [45] id (by decide), join_tidy _ _ _ (tidy_append _ _ (validIdent_tidy hid))]
  obtain ⟨e1, t1⟩ := serPattern_eq es hve w ([45] ++ id ++ [32, 61]) (tidy_append _ _ (by decide))
  rw [e1]
  simp only [Option.map_some]
  rw [writeLiteral_plain w _ hw]
  obtain ⟨e2, p2⟩ := newline_pushAll_tidy w _ t1
  rw [e2]
  have e3 : [45] ++ id ++ [32, 61] ++ 32 :: patBytes es ++ [10] = 45 :: (id ++ [32, 61] ++ 32 :: (patBytes es ++ [10])) := by
    simp
  rw [e3] at p2 ⊢
  exact ⟨rfl, p2 hw.1⟩

/-- **the serializer on a resource of simple entries** writes one line per entry, nothing else -/
theorem serResourceGo_simple (withJunk : Bool) (r : List (Entry Bytes)) (hv : ∀ e ∈ r, validSimpleEntry e = true)
    (w : Writer) (hw : Plain w) (b : Bool) :
    serResourceGo withJunk w b r = some (w.pushAll (resBytes r)) := by
  induction r generalizing w b with
  | nil => simp [serResourceGo, resBytes, Writer.pushAll]
  | cons e es ih =>
    have he := hv e (List.mem_cons_self)
    have ih' := ih (fun x hx => hv x (List.mem_cons_of_mem _ hx))
    cases e with
    | message m =>
      obtain ⟨e1, p1⟩ := serMessage_simple m he w hw
      simp only [serResourceGo, e1, ih' _ p1, resBytes, pushAll_pushAll]
    | term t =>
      obtain ⟨e1, p1⟩ := serTerm_simple t he w hw
      simp only [serResourceGo, e1, ih' _ p1, resBytes, pushAll_pushAll]
    | _ => simp [validSimpleEntry] at he

theorem serialize_simple (withJunk : Bool) (r : List (Entry Bytes)) (hv : ∀ e ∈ r, validSimpleEntry e = true) :
    serialize withJunk r = some (resBytes r) := by
  simp [serialize, serResourceGo_simple withJunk r hv {} plain_empty false, Writer.pushAll]

/-! ## the parser on simple entries -/

/-- what follows an entry: the end of the input or the first byte of the next simple entry -/
def EntryStartOK (s : Src) (q : Nat) : Prop :=
  s.size ≤ q ∨ ∃ b, s[q]? = some b ∧ (isAlpha b = true ∨ b = 45)

theorem entryStart_facts : ∀ b : UInt8, (isAlpha b = true ∨ b = 45) →
    b ≠ 123 ∧ b ≠ 32 ∧ b ≠ 10 ∧ b ≠ 13 ∧ b ≠ 46 ∧ b ≠ 35 := by
  apply forall_uint8; decide +kernel

theorem EntryStartOK.lineEnd {s : Src} {q : Nat} (h : EntryStartOK s q) : LineEndOK s q := by
  rcases h with h | ⟨b, hb, hab⟩
  · exact Or.inl h
  · obtain ⟨h1, h2, h3, h4, _⟩ := entryStart_facts b hab
    exact Or.inr ⟨b, hb, h1, h2, h3, fun h => absurd h h4⟩

theorem EntryStartOK.facts {s : Src} {q : Nat} (h : EntryStartOK s q) :
    s[q]? ≠ some 32 ∧ s[q]? ≠ some 10 ∧ s[q]? ≠ some 13 ∧ s[q]? ≠ some 46 := by
  rcases h with h | ⟨b, hb, hab⟩
  · have : s[q]? = none := by simp; omega
    simp [this]
  · obtain ⟨h1, h2, h3, h4, h5, _⟩ := entryStart_facts b hab
    rw [hb]; simp [h2, h3, h4, h5]

theorem skipBlankBlock_stay (s : Src) (q : Nat) (h : EntryStartOK s q) : skipBlankBlock s q = (q, 0) := by
  obtain ⟨h1, h2, h3, _⟩ := h.facts
  unfold skipBlankBlock
  rw [skipBlankBlockGo, skipBlankInline_stay s q h1]
  have : skipEol s q = none := by
    unfold skipEol
    split <;> simp_all
  rw [this]
  simp

theorem getAttributes_none (s : Src) (fuel q : Nat) (h : EntryStartOK s q) : getAttributes s fuel q = .ok [] q := by
  obtain ⟨h1, _, _, h4⟩ := h.facts
  unfold getAttributes
  rw [getAttributesGo, skipBlankInline_stay s q h1, takeByteIf_no s q 46 h4]
  simp

theorem getPattern_skip (s : Src) (n p : Nat) (h : s[p]? = some 32) : getPattern s n p = getPattern s n (p + 1) := by
  cases n with
  | zero => simp [getPattern]
  | succ n => rw [getPattern, getPattern, skipBlankInline_space s p h]

theorem exprFuel_enough (s : Src) (es : List (PatElem Bytes)) (hv : validSingleLine es = true) (p : Nat)
    (h : At s p (patBytes es)) : fuelPat es + 1 ≤ exprFuel s := by
  have h1 := fuelPat_le es (validSingleLine_elems hv)
  have h2 : (patBytes es).length ≤ s.size := by
    rcases at_le h with h0 | h'
    · rw [h0]; simp
    · omega
  unfold exprFuel
  omega

theorem getMessage_simple {s : Src} (hs : AsciiThenBoundary s) (m : Message Bytes) (hv : validSimpleMessage m = true)
    (p : Nat) (h : At s p (entryBytes (.message m))) (hnext : EntryStartOK s (p + (entryBytes (.message m)).length)) :
    ∃ m', getMessage s (exprFuel s) p p = .ok m' (p + (entryBytes (.message m)).length) ∧
      Entry.mapS (spanBytes s) (.message m') = .message m := by
  obtain ⟨id, value, attrs, comment⟩ := m
  simp only [validSimpleMessage, Bool.and_eq_true, List.isEmpty_iff, Option.isNone_iff_eq_none] at hv
  obtain ⟨⟨⟨hid, hval⟩, rfl⟩, rfl⟩ := hv
  cases value with
  | none => simp at hval
  | some es =>
    simp only at hval
    simp only [entryBytes, Option.getD_some] at h hnext ⊢
    rw [at_append, at_append] at h
    obtain ⟨⟨h1, h2⟩, h3⟩ := h
    simp only [at_cons, List.length_append, List.length_cons, List.length_nil] at h2 h3
    have hq : p + (id.length + (0 + 1 + 1)) = p + id.length + 2 := by omega
    rw [hq] at h3
    have hid' := getIdentifier_at hs p id hid h1 (fun c hc => by rw [h2.1] at hc; cases hc; decide)
    have hsbi : skipBlankInline s (p + id.length) = p + id.length + 1 := by
      rw [skipBlankInline_space s _ h2.1]
      exact skipBlankInline_stay s _ (by rw [h2.2.1]; decide)
    have hpat_at : At s (p + id.length + 2) (32 :: (patBytes es ++ [10])) := by
      rw [at_cons]; exact h3
    have hlen : p + (id ++ [32, 61] ++ 32 :: (patBytes es ++ [10])).length =
        p + id.length + 2 + 1 + (patBytes es).length + 1 := by simp; omega
    rw [hlen] at hnext ⊢
    have hfuel : fuelPat es + 1 ≤ exprFuel s := by
      have := h3.2; rw [at_append] at this
      exact exprFuel_enough s es hval _ this.1
    obtain ⟨els, hpat, hmap⟩ := getPattern_singleline hs es hval _ (exprFuel s) hpat_at hnext.lineEnd hfuel
    refine ⟨⟨⟨p, p + id.length⟩, some els, [], none⟩, ?_, ?_⟩
    · unfold getMessage
      simp only [hid', hsbi, expectByte, isCurrentByte, h2.2.1, beq_self_eq_true, if_true, hpat,
        skipBlankBlock_stay s _ hnext, getAttributes_none s _ _ hnext]
      simp
    · simp [Entry.mapS, at_spanBytes h1, hmap]

theorem getTerm_simple {s : Src} (hs : AsciiThenBoundary s) (t : Term Bytes) (hv : validSimpleTerm t = true)
    (p : Nat) (h : At s p (entryBytes (.term t))) (hnext : EntryStartOK s (p + (entryBytes (.term t)).length)) :
    ∃ t', getTerm s (exprFuel s) p p = .ok t' (p + (entryBytes (.term t)).length) ∧
      Entry.mapS (spanBytes s) (.term t') = .term t := by
  obtain ⟨id, es, attrs, comment⟩ := t
  simp only [validSimpleTerm, Bool.and_eq_true, List.isEmpty_iff, Option.isNone_iff_eq_none] at hv
  obtain ⟨⟨⟨hid, hval⟩, rfl⟩, rfl⟩ := hv
  simp only [entryBytes] at h hnext ⊢
  rw [at_cons, at_append, at_append] at h
  obtain ⟨h0, ⟨h1, h2⟩, h3⟩ := h
  simp only [at_cons, List.length_append, List.length_cons, List.length_nil] at h2 h3
  have hq : p + 1 + (id.length + (0 + 1 + 1)) = p + 1 + id.length + 2 := by omega
  rw [hq] at h3
  have hid' := getIdentifier_at hs (p + 1) id hid h1 (fun c hc => by rw [h2.1] at hc; cases hc; decide)
  have hsbi : skipBlankInline s (p + 1 + id.length) = p + 1 + id.length + 1 := by
    rw [skipBlankInline_space s _ h2.1]
    exact skipBlankInline_stay s _ (by rw [h2.2.1]; decide)
  have hpat_at : At s (p + 1 + id.length + 2) (32 :: (patBytes es ++ [10])) := by
    rw [at_cons]; exact h3
  have hlen : p + (45 :: (id ++ [32, 61] ++ 32 :: (patBytes es ++ [10]))).length =
      p + 1 + id.length + 2 + 1 + (patBytes es).length + 1 := by simp; omega
  rw [hlen] at hnext ⊢
  have hfuel : fuelPat es + 1 ≤ exprFuel s := by
    have := h3.2; rw [at_append] at this
    exact exprFuel_enough s es hval _ this.1
  obtain ⟨els, hpat, hmap⟩ := getPattern_singleline hs es hval _ (exprFuel s) hpat_at hnext.lineEnd hfuel
  -- `get_term` skips the blank itself before calling `get_pattern`
  obtain ⟨b, hb, b1, _, _⟩ := patBytes_head es (by
      simp only [validSingleLine, Bool.and_eq_true, Bool.not_eq_true', List.isEmpty_eq_false_iff] at hval
      exact hval.1.1.1.1) (validSingleLine_elems hval) (by
      simp only [validSingleLine, Bool.and_eq_true] at hval; exact hval.1.2)
  have hb0 : s[p + 1 + id.length + 2 + 1]? = some b := by
    have : (patBytes es ++ [10]).head? = some b := by
      cases hpb : patBytes es with
      | nil => simp [hpb] at hb
      | cons x xs => simp [hpb] at hb ⊢; exact hb
    exact at_head h3.2 this
  have hsbi2 : skipBlankInline s (p + 1 + id.length + 2) = p + 1 + id.length + 2 + 1 := by
    rw [skipBlankInline_space s _ h3.1]
    exact skipBlankInline_stay s _ (by rw [hb0]; simpa using b1)
  rw [getPattern_skip s _ _ h3.1] at hpat
  refine ⟨⟨⟨p + 1, p + 1 + id.length⟩, els, [], none⟩, ?_, ?_⟩
  · unfold getTerm
    simp only [expectByte, isCurrentByte, h0, beq_self_eq_true, if_true, hid', hsbi, h2.2.1, hsbi2, hpat,
      skipBlankBlock_stay s _ hnext, getAttributes_none s _ _ hnext]
  · simp [Entry.mapS, at_spanBytes h1, hmap]

theorem alpha_not_hash_minus : ∀ b : UInt8, isAlpha b = true → b ≠ 35 ∧ b ≠ 45 := by
  apply forall_uint8; decide +kernel

theorem entryBytes_head (e : Entry Bytes) (hv : validSimpleEntry e = true) :
    ∃ b, (entryBytes e).head? = some b ∧
      (match e with
       | .message _ => isAlpha b = true
       | _ => b = 45) := by
  cases e with
  | message m =>
    simp only [validSimpleEntry, validSimpleMessage, Bool.and_eq_true] at hv
    obtain ⟨b, rest, hid, hb, _⟩ := validIdent_head hv.1.1.1
    exact ⟨b, by simp [entryBytes, hid], hb⟩
  | term t => exact ⟨45, by simp [entryBytes], rfl⟩
  | _ => simp [validSimpleEntry] at hv

theorem entryStartOK_next {s : Src} (p : Nat) (es : List (Entry Bytes)) (hv : ∀ e ∈ es, validSimpleEntry e = true)
    (h : At s p (resBytes es)) (hsz : p + (resBytes es).length = s.size) : EntryStartOK s p := by
  cases es with
  | nil => left; simp [resBytes] at hsz; omega
  | cons e es =>
    right
    obtain ⟨b, hb, hbe⟩ := entryBytes_head e (hv e (List.mem_cons_self))
    refine ⟨b, at_head h (by
      simp only [resBytes]
      cases he : entryBytes e with
      | nil => simp [he] at hb
      | cons x xs => simp [he] at hb ⊢; exact hb), ?_⟩
    cases e with
    | message m => exact Or.inl hbe
    | term t => exact Or.inr hbe
    | _ => exact Or.inr hbe

theorem getEntry_simple {s : Src} (hs : AsciiThenBoundary s) (e : Entry Bytes) (hv : validSimpleEntry e = true)
    (p : Nat) (h : At s p (entryBytes e)) (hnext : EntryStartOK s (p + (entryBytes e).length)) :
    ∃ e', getEntry s (exprFuel s) p = .ok e' (p + (entryBytes e).length) ∧ Entry.mapS (spanBytes s) e' = e ∧
      (∀ c, e' ≠ .comment c) := by
  obtain ⟨b, hb, hbe⟩ := entryBytes_head e hv
  have hb0 := at_head h hb
  cases e with
  | message m =>
    obtain ⟨m', hm, hmap⟩ := getMessage_simple hs m hv p h hnext
    obtain ⟨n35, n45⟩ := alpha_not_hash_minus b hbe
    refine ⟨.message m', ?_, hmap, by intro c hc; cases hc⟩
    unfold getEntry
    rw [hb0]
    split
    · rename_i heq; simp at heq; exact absurd heq n35
    · rename_i heq; simp at heq; exact absurd heq n45
    · simp only [hm]
  | term t =>
    obtain ⟨t', ht, hmap⟩ := getTerm_simple hs t hv p h hnext
    subst hbe
    refine ⟨.term t', ?_, hmap, by intro c hc; cases hc⟩
    unfold getEntry
    rw [hb0]
    simp only [ht]
  | _ => simp [validSimpleEntry] at hv

theorem parseLoop_simple {s : Src} (hs : AsciiThenBoundary s) (r : List (Entry Bytes))
    (hv : ∀ e ∈ r, validSimpleEntry e = true) :
    ∀ (p n : Nat) (body : List (Entry Span)) (errors : List PErr) (cnt : Nat),
      At s p (resBytes r) → p + (resBytes r).length = s.size → r.length + 1 ≤ n →
      ∃ t', parseLoop s (exprFuel s) n body errors none cnt p = .done (body ++ t', errors) ∧
        t'.map (Entry.mapS (spanBytes s)) = r := by
  induction r with
  | nil =>
    intro p n body errors cnt _ hsz hn
    obtain ⟨m, rfl⟩ : ∃ m, n = m + 1 := ⟨n - 1, by simp at hn; omega⟩
    simp only [resBytes, List.length_nil, Nat.add_zero] at hsz
    refine ⟨[], ?_, rfl⟩
    rw [parseLoop]
    simp [hsz]
  | cons e es ih =>
    intro p n body errors cnt h hsz hn
    obtain ⟨m, rfl⟩ : ∃ m, n = m + 1 := ⟨n - 1, by omega⟩
    have hve := hv e (List.mem_cons_self)
    have hvt : ∀ x ∈ es, validSimpleEntry x = true := fun x hx => hv x (List.mem_cons_of_mem _ hx)
    simp only [resBytes, List.length_append] at h hsz
    rw [at_append] at h
    have hnext := entryStartOK_next (p + (entryBytes e).length) es hvt h.2 (by omega)
    obtain ⟨e', he, hmap, hnc⟩ := getEntry_simple hs e hve p h.1 hnext
    obtain ⟨t', hloop, hmt⟩ := ih hvt (p + (entryBytes e).length) m (body ++ [e']) errors 0 h.2 (by omega)
      (by simp at hn; omega)
    obtain ⟨b, hb, _⟩ := entryBytes_head e hve
    have hplt : p < s.size := get_lt (at_head h.1 hb)
    refine ⟨e' :: t', ?_, by simp [hmap, hmt]⟩
    rw [parseLoop]
    simp only [hplt, if_true, he, skipBlankBlock_stay s _ hnext]
    cases e' with
    | comment c => exact absurd rfl (hnc c)
    | _ => simp only [hloop, List.append_assoc, List.singleton_append]

theorem resBytes_length (r : List (Entry Bytes)) (hv : ∀ e ∈ r, validSimpleEntry e = true) :
    r.length ≤ (resBytes r).length := by
  induction r with
  | nil => simp
  | cons e es ih =>
    have := ih (fun x hx => hv x (List.mem_cons_of_mem _ hx))
    obtain ⟨b, hb, _⟩ := entryBytes_head e (hv e (List.mem_cons_self))
    have : 1 ≤ (entryBytes e).length := by
      cases he : entryBytes e with
      | nil => simp [he] at hb
      | cons x xs => simp
    simp only [resBytes, List.length_append, List.length_cons]
    omega

theorem at_self (bs : Bytes) : At bs.toArray 0 bs := by
  have := at_toArray [] bs []
  simpa using this

/-- **T2 `roundtrip_singleline_partial`.**  For every resource that consists of messages and terms
whose value is a valid single-line pattern (`validSimpleEntry`: identifier well-shaped; the value is
non-empty, its texts are non-empty and contain no `\n`, `\r`, `{`, `}`, its placeables hold valid
inline expressions — no select, no term attribute —, no two texts are adjacent, it does not start or
end with a space; no attributes, no comment) and both options: the serializer produces `out`
(one line per entry), and — provided `out` satisfies the `&str` invariant, which it does whenever the
strings of the tree are UTF-8 — the parser reads `out` back, without errors, as a tree that resolves
to *exactly* the resource (so in particular equal under `norm`), and serialising that tree again gives
`out` (fixed point).

This is the full C04 statement restricted to such resources; what is missing in general is the
multi-line pattern layer (indentation), selects, attributes, comments and Junk. -/
theorem roundtrip_singleline (withJunk : Bool) (r : Resource Bytes) (hv : ∀ e ∈ r, validSimpleEntry e = true) :
    ∃ out, serialize withJunk r = some out ∧
      (AsciiThenBoundary out.toArray →
        ∃ t', parse out.toArray = .done (t', []) ∧ resolve out.toArray t' = r ∧
          serialize withJunk (resolve out.toArray t') = some out) := by
  refine ⟨resBytes r, serialize_simple withJunk r hv, fun hs => ?_⟩
  have hat := at_self (resBytes r)
  have hsz : 0 + (resBytes r).length = (resBytes r).toArray.size := by simp
  have h0 := entryStartOK_next 0 r hv hat hsz
  obtain ⟨t', hloop, hmap⟩ := parseLoop_simple hs r hv 0 ((resBytes r).toArray.size + 1) [] [] 0 hat hsz
    (by have := resBytes_length r hv; simp; omega)
  refine ⟨t', ?_, hmap, ?_⟩
  · unfold parse
    simp only [skipBlankBlock_stay _ 0 h0]
    simpa using hloop
  · have : resolve (resBytes r).toArray t' = r := hmap
    rw [this]; exact serialize_simple withJunk r hv

end FluentProofs.Ser
