import FluentModel.Resolver
/-!
# Invariants of the resolver model (C06, part 1): the placeable counter, `dirty`, the error log, no panic

Everything is proved for every fuel, every `Env`, every AST (parser-produced or not), every scope and
writer, by one induction on the fuel over the ten functions of the mutual block.

`Step a b` relates the scope before a call to the scope after it; `Good env sc r` says what a result
`r` of a call started in scope `sc` satisfies: `.ok` → `Step`, `.panic` → the start scope was not
`ScopeOk` or the plural rules are partial, `.fuel` → nothing.

Parametric in `Generated.maxPlaceables`: only `hmax : Generated.maxPlaceables ≤ 254` is used.
-/
namespace FluentProofs.Resolver
open FluentModel FluentModel.Syntax FluentModel.Resolver

/-- the counter is within the limit, or it is exactly one past the limit and the guard has tripped -/
def ScopeOk (sc : Scope) : Prop :=
  sc.placeables ≤ Generated.maxPlaceables ∨
    (sc.placeables = Generated.maxPlaceables + 1 ∧ sc.dirty = true)

/-- 1 when `dirty` flips from `false` to `true` between `a` and `b`, else 0 -/
def flip (a b : Scope) : Nat := if a.dirty = false ∧ b.dirty = true then 1 else 0

/-- what every call of the mutual block does to the scope -/
structure Step (a b : Scope) : Prop where
  /-- the counter invariant is preserved -/
  ok : ScopeOk a → ScopeOk b
  /-- the counter never decreases -/
  placeables : a.placeables ≤ b.placeables
  /-- `dirty` is never reset -/
  dirty : a.dirty = true → b.dirty = true
  /-- the log only grows, and `tooManyPlaceables` is appended exactly when `dirty` flips -/
  errors : ∃ l, b.errors = a.errors ++ l ∧ l.count RErr.tooManyPlaceables = flip a b
  /-- the arguments of the enclosing term call are back in force after the call -/
  localArgs : b.localArgs = a.localArgs

/-- the three fields `Step`/`ScopeOk` talk about agree -/
def Same (a b : Scope) : Prop := a.placeables = b.placeables ∧ a.dirty = b.dirty ∧ a.errors = b.errors

theorem ScopeOk.congr {a b : Scope} (h : Same a b) : ScopeOk a → ScopeOk b := by
  obtain ⟨h1, h2, _⟩ := h
  unfold ScopeOk; rw [h1, h2]; exact id

theorem Same.symm {a b : Scope} (h : Same a b) : Same b a := ⟨h.1.symm, h.2.1.symm, h.2.2.symm⟩

theorem Step.congr {a a' b b' : Scope} (h : Step a b) (ha : Same a a') (hb : Same b b')
    (hl : b'.localArgs = a'.localArgs) : Step a' b' := by
  obtain ⟨l, h1, h2⟩ := h.errors
  refine ⟨fun x => ScopeOk.congr hb (h.ok (ScopeOk.congr ha.symm x)), ?_, ?_, ⟨l, ?_, ?_⟩, hl⟩
  · rw [← ha.1, ← hb.1]; exact h.placeables
  · rw [← ha.2.1, ← hb.2.1]; exact h.dirty
  · rw [← ha.2.2, ← hb.2.2]; exact h1
  · unfold flip at *; rw [← ha.2.1, ← hb.2.1]; exact h2

theorem Step.refl (a : Scope) : Step a a :=
  ⟨id, Nat.le_refl _, id, ⟨[], by simp, by cases h : a.dirty <;> simp [flip, h]⟩, rfl⟩

theorem Step.trans {a b c : Scope} (h1 : Step a b) (h2 : Step b c) : Step a c := by
  obtain ⟨l1, e1, c1⟩ := h1.errors
  obtain ⟨l2, e2, c2⟩ := h2.errors
  refine ⟨fun x => h2.ok (h1.ok x), Nat.le_trans h1.placeables h2.placeables, fun x => h2.dirty (h1.dirty x),
    ⟨l1 ++ l2, by rw [e2, e1, List.append_assoc], ?_⟩, h2.localArgs.trans h1.localArgs⟩
  rw [List.count_append, c1, c2]
  have d1 := h1.dirty
  have d2 := h2.dirty
  unfold flip
  cases ha : a.dirty <;> cases hb : b.dirty <;> cases hc : c.dirty <;> simp_all

/-- pushing an error other than `tooManyPlaceables` -/
theorem Step.addError (a : Scope) (e : RErr) (he : e ≠ .tooManyPlaceables) : Step a (a.addError e) := by
  refine ⟨id, Nat.le_refl _, id, ⟨[e], rfl, ?_⟩, rfl⟩
  have : (a.addError e).dirty = a.dirty := rfl
  unfold flip; rw [this]
  cases h : a.dirty <;> simp [he]

/-- the specification of a result of a call started in `sc` -/
def Good (env : Env) (sc : Scope) {α : Type} (r : RR (α × Scope)) : Prop :=
  match r with
  | .ok p => Step sc p.2
  | .panic _ => ScopeOk sc → ∃ n, env.category n = none
  | .fuel => True

@[simp] theorem good_ok (env : Env) (sc : Scope) {α : Type} (x : α) (sc' : Scope) :
    Good env sc (RR.ok (x, sc')) = Step sc sc' := rfl
@[simp] theorem good_panic (env : Env) (sc : Scope) {α : Type} (m : String) :
    Good env sc (RR.panic m : RR (α × Scope)) = (ScopeOk sc → ∃ n, env.category n = none) := rfl
@[simp] theorem good_fuel (env : Env) (sc : Scope) {α : Type} :
    Good env sc (RR.fuel : RR (α × Scope)) = True := rfl

theorem Good.trans {env : Env} {a b : Scope} {α : Type} {r : RR (α × Scope)} (h : Step a b)
    (g : Good env b r) : Good env a r := by
  cases r with
  | ok p => exact h.trans g
  | panic m => exact fun x => g (h.ok x)
  | fuel => trivial

theorem Good.step_of_ok {env : Env} {a b : Scope} {α : Type} {r : RR (α × Scope)} {x : α}
    (g : Good env a r) (hr : r = .ok (x, b)) : Step a b := by
  subst hr; exact g

theorem Good.not_panic {env : Env} {a : Scope} {α : Type} {r : RR (α × Scope)} {m : String}
    (g : Good env a r) (hok : ScopeOk a) (hcat : ∀ n, env.category n ≠ none) : r ≠ .panic m := by
  intro hr; subst hr
  obtain ⟨k, hk⟩ := g hok
  exact hcat k hk

/-- results of different payload types carry the same obligations when the `panic`/`fuel` arms are
passed through -/
theorem Good.panic_cast {env : Env} {a : Scope} {α β : Type} {m : String}
    (g : Good env a (RR.panic m : RR (α × Scope))) : Good env a (RR.panic m : RR (β × Scope)) := g

/-! ## the non-recursive helpers -/

theorem valueMatches_none {env : Env} {k s : Value} (h : valueMatches env k s = none) :
    ∃ n, env.category n = none := by
  unfold valueMatches at h
  split at h <;> try (simp at h)
  split at h
  · simp at h
  · rename_i b _ _ _
    refine ⟨b, ?_⟩
    cases hc : env.category b with
    | none => rfl
    | some c => simp [hc] at h

theorem selectVariant_spec (env : Env) (vs : List (Variant Bytes)) (sel : Value) :
    match selectVariant env vs sel with
    | .ok _ => True
    | .panic _ => ∃ n, env.category n = none
    | .fuel => False := by
  induction vs with
  | nil => simp [selectVariant]
  | cons v rest ih =>
    obtain ⟨key, value, d⟩ := v
    have key' : ∀ kv : Value,
        match (match valueMatches env kv sel with
          | none => (RR.panic "plural rules unwrap" : RR (Option (Pattern Bytes)))
          | some true => RR.ok (some value)
          | some false => selectVariant env rest sel) with
        | .ok _ => True
        | .panic _ => ∃ n, env.category n = none
        | .fuel => False := by
      intro kv
      cases hv : valueMatches env kv sel with
      | none => exact valueMatches_none hv
      | some b =>
        cases b with
        | true => trivial
        | false => exact ih
    simp only [selectVariant]
    exact key' _

theorem selectVariant_ne_fuel (env : Env) (vs : List (Variant Bytes)) (sel : Value) :
    selectVariant env vs sel ≠ .fuel := by
  have := selectVariant_spec env vs sel
  intro h; rw [h] at this; exact this

theorem writeRefError_good (w : Bytes) (sc : Scope) (e : Inline Bytes) (k : RefKind)
    (hk : refKindOf e = some k) :
    writeRefError w sc e = .ok (w ++ braced (inlineWriteError e), sc.addError (.reference k)) := by
  simp [writeRefError, hk]

/-! ## the joint statement at fuel `n` and its induction -/

structure Inv (env : Env) (n : Nat) : Prop where
  writeElems : ∀ whole len els w sc, Good env sc (writeElems env n whole len els w sc)
  writePattern : ∀ p w sc, Good env sc (writePattern env n p w sc)
  track : ∀ p e w sc, Good env sc (track env n p e w sc)
  writeExpr : ∀ e w sc, Good env sc (writeExpr env n e w sc)
  writeDefault : ∀ vs w sc, Good env sc (writeDefault env n vs w sc)
  writeInline : ∀ e w sc, Good env sc (writeInline env n e w sc)
  resolveInline : ∀ e sc, Good env sc (resolveInline env n e sc)
  getArguments : ∀ a sc, Good env sc (getArguments env n a sc)
  resolveList : ∀ es sc, Good env sc (resolveList env n es sc)
  resolveNamed : ∀ es sc, Good env sc (resolveNamed env n es sc)

theorem inv_zero (env : Env) : Inv env 0 := by
  constructor <;> intros <;> simp [writeElems, writePattern, track, writeExpr, writeDefault, writeInline,
    resolveInline, getArguments, resolveList, resolveNamed]

section step
variable {env : Env} {n : Nat} (hmax : Generated.maxPlaceables ≤ 254) (IH : Inv env n)
include IH

theorem writePattern_step (p : Pattern Bytes) (w : Bytes) (sc : Scope) :
    Good env sc (writePattern env (n + 1) p w sc) := by
  simp only [writePattern]; exact IH.writeElems _ _ _ _ _

theorem writeDefault_step (vs : List (Variant Bytes)) (w : Bytes) (sc : Scope) :
    Good env sc (writeDefault env (n + 1) vs w sc) := by
  simp only [writeDefault]
  split
  · exact IH.writePattern _ _ _
  · simp only [good_ok]; exact Step.addError _ _ (by simp)

theorem track_step (p : Pattern Bytes) (e : Inline Bytes) (w : Bytes) (sc : Scope) :
    Good env sc (track env (n + 1) p e w sc) := by
  simp only [track]
  split
  · simp only [good_ok]; exact Step.addError _ _ (by simp)
  · have h := IH.writePattern p w { sc with travelled := sc.travelled ++ [p] }
    rcases hr : writePattern env n p w { sc with travelled := sc.travelled ++ [p] } with ⟨⟨w1, sc1⟩⟩ | ⟨m⟩ | _
    · rw [hr] at h; simp only [good_ok] at h ⊢
      exact h.congr ⟨rfl, rfl, rfl⟩ ⟨rfl, rfl, rfl⟩ h.localArgs
    · rw [hr] at h; simp only [good_panic] at h ⊢
      exact fun x => h (ScopeOk.congr ⟨rfl, rfl, rfl⟩ x)
    · trivial

include hmax in
theorem writeElems_step (whole : Pattern Bytes) (len : Nat) (els : List (PatElem Bytes)) (w : Bytes) (sc : Scope) :
    Good env sc (writeElems env (n + 1) whole len els w sc) := by
  cases els with
  | nil => simp only [writeElems, good_ok]; exact Step.refl _
  | cons el rest =>
    cases el with
    | text v =>
      simp only [writeElems]
      split
      · simp only [good_ok]; exact Step.refl _
      · exact IH.writeElems _ _ _ _ _
    | placeable e =>
      simp only [writeElems]
      split
      · simp only [good_ok]; exact Step.refl _
      rename_i hd
      have hd : sc.dirty = false := by cases h : sc.dirty <;> simp_all
      split
      · rename_i h255
        simp only [good_panic]
        intro hok
        rcases hok with h | ⟨_, h⟩
        · omega
        · rw [hd] at h; cases h
      split
      · rename_i hgt
        simp only [good_ok]
        refine ⟨?_, ?_, ?_, ⟨[RErr.tooManyPlaceables], rfl, ?_⟩, rfl⟩
        · intro hok
          rcases hok with h | ⟨_, h⟩
          · have hgt' : sc.placeables + 1 > Generated.maxPlaceables := hgt
            right; exact ⟨by show sc.placeables + 1 = _; omega, rfl⟩
          · rw [hd] at h; cases h
        · show sc.placeables ≤ sc.placeables + 1; omega
        · intro _; rfl
        · have : (Scope.addError { sc with placeables := sc.placeables + 1, dirty := true } RErr.tooManyPlaceables).dirty = true := rfl
          simp [flip, hd, this]
      · rename_i hle
        have hle' : ¬ sc.placeables + 1 > Generated.maxPlaceables := hle
        -- the scope handed to the expression
        generalize hsc2 : (if ({ sc with placeables := sc.placeables + 1 } : Scope).travelled.isEmpty = true
          then { sc with placeables := sc.placeables + 1, travelled := [whole] }
          else { sc with placeables := sc.placeables + 1 }) = sc2
        have hsame : Same { sc with placeables := sc.placeables + 1 } sc2 := by
          rw [← hsc2]; split <;> exact ⟨rfl, rfl, rfl⟩
        have hstep : Step sc sc2 := by
          refine Step.congr (?_ : Step sc { sc with placeables := sc.placeables + 1 }) ⟨rfl, rfl, rfl⟩ hsame
            (by rw [← hsc2]; split <;> rfl)
          refine ⟨fun _ => Or.inl (by show sc.placeables + 1 ≤ _; omega), by show sc.placeables ≤ sc.placeables + 1; omega,
            id, ⟨[], by simp, ?_⟩, rfl⟩
          have : ({ sc with placeables := sc.placeables + 1 } : Scope).dirty = sc.dirty := rfl
          simp [flip, hd]
        have h := IH.writeExpr e (if (env.useIsolating && decide (len > 1) && isolatable e) = true then w ++ fsi else w) sc2
        rcases hr : writeExpr env n e (if (env.useIsolating && decide (len > 1) && isolatable e) = true then w ++ fsi else w) sc2
          with ⟨⟨w2, sc3⟩⟩ | ⟨m⟩ | _
        · rw [hr] at h; simp only [good_ok] at h
          simp only []
          exact Good.trans (hstep.trans h) (IH.writeElems _ _ _ _ _)
        · rw [hr] at h
          exact Good.trans hstep h
        · trivial

theorem select_tail (vs : List (Variant Bytes)) (w : Bytes) (sc1 : Scope) (selector : Value) :
    Good env sc1 (match selectVariant env vs selector with
      | .ok (some v) => writePattern env n v w sc1
      | .ok .none => writeDefault env n vs w sc1
      | .panic m => .panic m
      | .fuel => .fuel) := by
  have hs := selectVariant_spec env vs selector
  rcases hr : selectVariant env vs selector with ⟨_ | v⟩ | ⟨m⟩ | _
  · exact IH.writeDefault _ _ _
  · exact IH.writePattern _ _ _
  · rw [hr] at hs; exact fun _ => hs
  · trivial

theorem writeExpr_step (e : Expr Bytes) (w : Bytes) (sc : Scope) :
    Good env sc (writeExpr env (n + 1) e w sc) := by
  cases e with
  | inline e => simp only [writeExpr]; exact IH.writeInline _ _ _
  | select sel vs =>
    simp only [writeExpr]
    have h := IH.resolveInline sel sc
    rcases hr : resolveInline env n sel sc with ⟨⟨selector, sc1⟩⟩ | ⟨m⟩ | _
    · rw [hr] at h; simp only [good_ok] at h
      refine Good.trans h ?_
      cases selector with
      | str b => exact select_tail IH vs w sc1 _
      | num b => exact select_tail IH vs w sc1 _
      | custom t => exact IH.writeDefault _ _ _
      | none => exact IH.writeDefault _ _ _
      | error => exact IH.writeDefault _ _ _
    · rw [hr] at h; exact h
    · trivial

theorem getArguments_step
    (a : Option (List (Inline Bytes) × List (Bytes × Inline Bytes))) (sc : Scope) :
    Good env sc (getArguments env (n + 1) a sc) := by
  cases a with
  | none => simp only [getArguments, good_ok]; exact Step.refl _
  | some pn =>
    obtain ⟨pos, named⟩ := pn
    simp only [getArguments]
    have h := IH.resolveList pos sc
    rcases hr : resolveList env n pos sc with ⟨⟨vs, sc1⟩⟩ | ⟨m⟩ | _
    · rw [hr] at h; simp only [good_ok] at h
      refine Good.trans h ?_
      simp only []
      have h2 := IH.resolveNamed named sc1
      rcases hr2 : resolveNamed env n named sc1 with ⟨⟨ns, sc2⟩⟩ | ⟨m⟩ | _
      · rw [hr2] at h2; simp only [good_ok] at h2 ⊢; exact h2
      · rw [hr2] at h2; simp only [good_panic] at h2 ⊢; exact h2
      · trivial
    · rw [hr] at h; exact h
    · trivial

theorem resolveList_step (es : List (Inline Bytes)) (sc : Scope) :
    Good env sc (resolveList env (n + 1) es sc) := by
  cases es with
  | nil => simp only [resolveList, good_ok]; exact Step.refl _
  | cons e es =>
    simp only [resolveList]
    have h := IH.resolveInline e sc
    rcases hr : resolveInline env n e sc with ⟨⟨v, sc1⟩⟩ | ⟨m⟩ | _
    · rw [hr] at h; simp only [good_ok] at h
      refine Good.trans h ?_
      simp only []
      have h2 := IH.resolveList es sc1
      rcases hr2 : resolveList env n es sc1 with ⟨⟨vs, sc2⟩⟩ | ⟨m⟩ | _
      · rw [hr2] at h2; simp only [good_ok] at h2 ⊢; exact h2
      · rw [hr2] at h2; simp only [good_panic] at h2 ⊢; exact h2
      · trivial
    · rw [hr] at h; exact h
    · trivial

theorem resolveNamed_step (es : List (Bytes × Inline Bytes)) (sc : Scope) :
    Good env sc (resolveNamed env (n + 1) es sc) := by
  cases es with
  | nil => simp only [resolveNamed, good_ok]; exact Step.refl _
  | cons ke es =>
    obtain ⟨k, e⟩ := ke
    simp only [resolveNamed]
    have h := IH.resolveInline e sc
    rcases hr : resolveInline env n e sc with ⟨⟨v, sc1⟩⟩ | ⟨m⟩ | _
    · rw [hr] at h; simp only [good_ok] at h
      refine Good.trans h ?_
      simp only []
      have h2 := IH.resolveNamed es sc1
      rcases hr2 : resolveNamed env n es sc1 with ⟨⟨vs, sc2⟩⟩ | ⟨m⟩ | _
      · rw [hr2] at h2; simp only [good_ok] at h2 ⊢; exact h2
      · rw [hr2] at h2; simp only [good_panic] at h2 ⊢; exact h2
      · trivial
    · rw [hr] at h; exact h
    · trivial

omit IH in
/-- `r` is a `track` or `write_ref_error` result in the scope with the call's own arguments installed;
the caller restores the outer `local_args` -/
theorem restore_good {sc1 : Scope} (la : Option ArgList) {r : RR (Bytes × Scope)}
    (h : Good env { sc1 with localArgs := la } r) :
    Good env sc1 (match r with
      | .ok (w1, sc3) => .ok (w1, { sc3 with localArgs := sc1.localArgs })
      | .panic m => .panic m
      | .fuel => .fuel) := by
  rcases r with ⟨⟨w1, sc3⟩⟩ | ⟨m⟩ | _
  · simp only [good_ok] at h ⊢; exact h.congr ⟨rfl, rfl, rfl⟩ ⟨rfl, rfl, rfl⟩ rfl
  · simp only [good_panic] at h ⊢
    exact fun x => h (ScopeOk.congr ⟨rfl, rfl, rfl⟩ x)
  · trivial

theorem writeInline_step (e : Inline Bytes) (w : Bytes) (sc : Scope) :
    Good env sc (writeInline env (n + 1) e w sc) := by
  cases e with
  | str v => simp only [writeInline, good_ok]; exact Step.refl _
  | num v => simp only [writeInline, good_ok]; exact Step.refl _
  | msg id attr =>
    simp only [writeInline]
    repeat' split
    all_goals first
      | exact IH.track _ _ _ _
      | (rw [writeRefError_good _ _ _ _ rfl]; simp only [good_ok]; exact Step.addError _ _ (by simp))
      | (simp only [good_ok]; exact Step.addError _ _ (by simp))
  | term id attr args =>
    simp only [writeInline]
    have h := IH.getArguments args sc
    rcases hr : getArguments env n args sc with ⟨⟨⟨rp, named⟩, sc1⟩⟩ | ⟨m⟩ | _
    · rw [hr] at h; simp only [good_ok] at h
      refine Good.trans h ?_
      simp only []
      apply restore_good (some named)
      split
      · exact IH.track _ _ _ _
      · rw [writeRefError_good _ _ _ _ rfl]; simp only [good_ok]; exact Step.addError _ _ (by simp)
    · rw [hr] at h; exact h
    · trivial
  | fn id pos named =>
    simp only [writeInline]
    have h := IH.getArguments (some (pos, named)) sc
    rcases hr : getArguments env n (some (pos, named)) sc with ⟨⟨⟨rp, rn⟩, sc1⟩⟩ | ⟨m⟩ | _
    · rw [hr] at h; simp only [good_ok] at h
      refine Good.trans h ?_
      simp only []
      split
      · split <;> (simp only [good_ok]; exact Step.refl _)
      · rw [writeRefError_good _ _ _ _ rfl]; simp only [good_ok]; exact Step.addError _ _ (by simp)
    · rw [hr] at h; exact h
    · trivial
  | var id =>
    simp only [writeInline]
    split
    · simp only [good_ok]; exact Step.refl _
    · simp only [good_ok]
      split
      · exact Step.addError _ _ (by simp)
      · exact Step.refl _
  | placeable e => simp only [writeInline]; exact IH.writeExpr _ _ _

theorem resolveInline_step (e : Inline Bytes) (sc : Scope) :
    Good env sc (resolveInline env (n + 1) e sc) := by
  have viaWrite : Good env sc (match writeInline env n e [] sc with
      | .ok (w, sc1) => (.ok (.str w, sc1) : RR (Value × Scope))
      | .panic m => .panic m
      | .fuel => .fuel) := by
    have h := IH.writeInline e [] sc
    rcases hr : writeInline env n e [] sc with ⟨⟨w, sc1⟩⟩ | ⟨m⟩ | _
    · rw [hr] at h; exact h
    · rw [hr] at h; exact h
    · trivial
  cases e with
  | str v => simp only [resolveInline, good_ok]; exact Step.refl _
  | num v => simp only [resolveInline, good_ok]; exact Step.refl _
  | var id =>
    simp only [resolveInline]
    repeat' split
    all_goals first
      | (simp only [good_ok]; exact Step.refl _)
      | (simp only [good_ok]; exact Step.addError _ _ (by simp))
  | fn id pos named =>
    simp only [resolveInline]
    have h := IH.getArguments (some (pos, named)) sc
    rcases hr : getArguments env n (some (pos, named)) sc with ⟨⟨⟨rp, rn⟩, sc1⟩⟩ | ⟨m⟩ | _
    · rw [hr] at h; simp only [good_ok] at h
      refine Good.trans h ?_
      simp only []
      split
      · simp only [good_ok]; exact Step.refl _
      · simp only [good_ok]; exact Step.addError _ _ (by simp)
    · rw [hr] at h; exact h
    · trivial
  | msg id attr => simp only [resolveInline]; exact viaWrite
  | term id attr args => simp only [resolveInline]; exact viaWrite
  | placeable e => simp only [resolveInline]; exact viaWrite

end step

/-- **the joint invariant holds at every fuel** -/
theorem inv_all (hmax : Generated.maxPlaceables ≤ 254) (env : Env) : ∀ n, Inv env n := by
  intro n
  induction n with
  | zero => exact inv_zero env
  | succ n IH =>
    exact ⟨writeElems_step hmax IH, writePattern_step IH, track_step IH, writeExpr_step IH, writeDefault_step IH,
      writeInline_step IH, resolveInline_step IH, getArguments_step IH, resolveList_step IH, resolveNamed_step IH⟩

end FluentProofs.Resolver
