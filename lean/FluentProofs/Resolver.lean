import FluentModel.Resolver
