import FluentProofs.ParserLocalPreLeaf2
/-!
# Locality of the parser, PREFIX family, part 3: the expression functions (strict mode)

Joint specification `PSpecs n s₁ s₂ f` of the eight mutually recursive functions at fuel `f` for the run on `s₁`
(the run on `s₂` may have any fuel `m ≥ f`), under `Pre n s₁ s₂`:

* strict mode (`getInline`, `getExpression`, `getPlaceable`, `getCallArguments`, `getCallArgsLoop`, `getVariants`):
  a successful run on `s₁` that ends *before* `n` is reproduced on `s₂` (at `n` the run on `s₁` saw the end of input);
* touch mode (`getPattern`, `getPatternLoop`): a successful run on `s₁` ends at or before `n` and is reproduced.

This file has the step lemmas of the strict functions; `ParserLocalPreExpr2.lean` the pattern functions and the
induction.
-/
namespace FluentProofs.Parser
open FluentModel.Syntax

theorem Mono.ok_le {α : Type} {p : Nat} {r : R α} {a : α} {q : Nat} (h : Mono p r) (e : r = .ok a q) : p ≤ q := by
  subst e; exact h

section
variable {n : Nat} {s₁ s₂ : Src}

/-- every text placeholder of the pattern loop's state ends at or before `n` -/
def PSn (n : Nat) (st : PatState) : Prop := ∀ a b ind r, Placeholder.text a b ind r ∈ st.elements → b ≤ n

structure PSpecs (n : Nat) (s₁ s₂ : Src) (f : Nat) : Prop where
  patternLoop : ∀ st p st' q, p ≤ n → (p = n → st.role = .lineStart) → PSn n st →
    getPatternLoop s₁ f st p = .ok st' q → q ≤ n ∧ PSn n st' ∧ ∀ m, f ≤ m → getPatternLoop s₂ m st p = .ok st' q
  pattern : ∀ p v q, p < n → getPattern s₁ f p = .ok v q → q ≤ n ∧ ∀ m, f ≤ m → getPattern s₂ m p = .ok v q
  placeable : ∀ p v q, getPlaceable s₁ f p = .ok v q → q < n → ∀ m, f ≤ m → getPlaceable s₂ m p = .ok v q
  expression : ∀ p v q, getExpression s₁ f p = .ok v q → q < n → ∀ m, f ≤ m → getExpression s₂ m p = .ok v q
  inline : ∀ ol p v q, getInline s₁ f ol p = .ok v q → q < n → ∀ m, f ≤ m → getInline s₂ m ol p = .ok v q
  callArguments : ∀ p v q, getCallArguments s₁ f p = .ok v q → q < n → ∀ m, f ≤ m → getCallArguments s₂ m p = .ok v q
  callArgsLoop : ∀ pos named p v q, (∀ na ∈ named, na.1.stop ≤ n) → getCallArgsLoop s₁ f pos named p = .ok v q → q < n →
    ∀ m, f ≤ m → getCallArgsLoop s₂ m pos named p = .ok v q
  variants : ∀ hd acc p v q, getVariants s₁ f hd acc p = .ok v q → q < n → ∀ m, f ≤ m → getVariants s₂ m hd acc p = .ok v q

theorem placeable_pstep (h : Pre n s₁ s₂) {f : Nat} (IH : PSpecs n s₁ s₂ f) (p : Nat) (v : Expr Span) (q : Nat)
    (hr : getPlaceable s₁ (f + 1) p = .ok v q) (hq : q < n) (m : Nat) (hm : f ≤ m) :
    getPlaceable s₂ (m + 1) p = .ok v q := by
  simp only [getPlaceable] at hr ⊢
  rcases he : getExpression s₁ f (skipBlank s₁ p) with ⟨exp, q0⟩ | ⟨e1, q1⟩ | m' | _ <;> simp only [he] at hr <;>
    try contradiction
  rcases hx : expectByte s₁ (skipBlankInline s₁ q0) 125 with ⟨u, q2⟩ | ⟨e1, q2⟩ | m' | _ <;> simp only [hx] at hr <;>
    try contradiction
  have l0 := (skipBlank_after s₁ p).le
  have l1 := ((mspecs_all s₁ f).expression _).ok_le he
  have l2 := (skipBlankInline_after s₁ q0).le
  obtain ⟨rfl, _⟩ := pre_expectByte_ok hx
  have l3 : skipBlankInline s₁ q0 + 1 = q := by
    split at hr
    · contradiction
    · injection hr with _ h2
  rw [skipBlank_pre h (by omega), IH.expression _ _ _ he (by omega) m hm]
  simp only []
  rw [skipBlankInline_pre h (by omega), expectByte_pre h (by omega), hx]
  exact hr

theorem expression_pstep (h : Pre n s₁ s₂) {f : Nat} (IH : PSpecs n s₁ s₂ f) (p : Nat) (v : Expr Span) (q : Nat)
    (hr : getExpression s₁ (f + 1) p = .ok v q) (hq : q < n) (m : Nat) (hm : f ≤ m) :
    getExpression s₂ (m + 1) p = .ok v q := by
  simp only [getExpression] at hr ⊢
  rcases hi : getInline s₁ f false p with ⟨exp, q0⟩ | ⟨e1, q1⟩ | m' | _ <;> simp only [hi] at hr <;> try contradiction
  have l2 := (skipBlank_after s₁ q0).le
  have key : skipBlank s₁ q0 ≤ q := by
    split at hr
    · split at hr
      · contradiction
      · injection hr with _ h2; omega
    · split at hr
      · contradiction
      · split at hr
        · contradiction
        · rename_i q3 hq3
          rcases hv : getVariants s₁ f false [] (skipBlank s₁ q3) with ⟨vs, q5⟩ | ⟨e1, q5⟩ | m' | _ <;>
            simp only [hv] at hr <;> try contradiction
          injection hr with _ h2
          have := (skipBlankInline_after s₁ (skipBlank s₁ q0 + 2)).le
          have := (skipEol_some hq3).1
          have := (skipBlank_after s₁ q3).le
          have := ((mspecs_all s₁ f).variants _ _ _).ok_le hv
          omega
  rw [IH.inline _ _ _ _ hi (by omega) m hm]
  simp only []
  rw [skipBlank_pre h (by omega)]
  have hq1 : skipBlank s₁ q0 < n := by omega
  rw [h.cur_lt hq1]
  cases hc : isCurrentByte s₁ (skipBlank s₁ q0) 45 with
  | false =>
    simp only [hc, Bool.not_false, Bool.true_or, if_true] at hr ⊢
    exact hr
  | true =>
    have hlt := h.succ_lt ((isCurrentByte_iff _ _ _).mp hc) (by decide)
    rw [h.get _ hlt]
    rw [hc] at hr
    by_cases hcond : (!true || !s₁[skipBlank s₁ q0 + 1]? == some 62) = true
    · rw [if_pos hcond] at hr ⊢; exact hr
    · rw [if_neg hcond] at hr ⊢
      split at hr
      · contradiction
      · split at hr
        · contradiction
        · rename_i q3 hq3
          rcases hv : getVariants s₁ f false [] (skipBlank s₁ q3) with ⟨vs, q5⟩ | ⟨e1, q5⟩ | m' | _ <;>
            simp only [hv] at hr <;> try contradiction
          have e5 : q5 = q := by injection hr
          have b1 := (skipBlankInline_after s₁ (skipBlank s₁ q0 + 2)).le
          have b2 := (skipEol_some hq3).1
          have b3 := (skipBlank_after s₁ q3).le
          have b4 := ((mspecs_all s₁ f).variants _ _ _).ok_le hv
          rw [skipBlankInline_pre h (by omega), skipEol_pre h (by omega), hq3]
          simp only []
          rw [skipBlank_pre h (by omega), IH.variants _ _ _ _ _ hv (by omega) m hm]
          exact hr

theorem callArguments_pstep (h : Pre n s₁ s₂) {f : Nat} (IH : PSpecs n s₁ s₂ f) (p : Nat)
    (v : Option (List (Inline Span) × List (Span × Inline Span))) (q : Nat)
    (hr : getCallArguments s₁ (f + 1) p = .ok v q) (hq : q < n) (m : Nat) (hm : f ≤ m) :
    getCallArguments s₂ (m + 1) p = .ok v q := by
  simp only [getCallArguments] at hr ⊢
  have l0 := (skipBlank_after s₁ p).le
  rcases takeByteIf_cases s₁ (skipBlank s₁ p) 40 with ⟨ht, hb⟩ | ⟨ht, _⟩ <;> rw [ht] at hr <;> simp only [] at hr
  · simp only [Bool.not_true, Bool.false_eq_true, if_false] at hr
    rcases hl : getCallArgsLoop s₁ f [] [] (skipBlank s₁ (skipBlank s₁ p + 1)) with ⟨⟨pos, named⟩, q0⟩ | ⟨e1, q1⟩ | m' | _ <;>
      simp only [hl] at hr <;> try contradiction
    rcases hx : expectByte s₁ q0 41 with ⟨u, q2⟩ | ⟨e1, q2⟩ | m' | _ <;> simp only [hx] at hr <;> try contradiction
    obtain ⟨rfl, _⟩ := pre_expectByte_ok hx
    have e : q0 + 1 = q := by injection hr
    have b1 := (skipBlank_after s₁ (skipBlank s₁ p + 1)).le
    have b2 := ((mspecs_all s₁ f).callArgsLoop _ _ _).ok_le hl
    rw [skipBlank_pre h (by omega), takeByteIf_pre h (by omega), ht]
    simp only [Bool.not_true, Bool.false_eq_true, if_false]
    rw [skipBlank_pre h (by omega), IH.callArgsLoop _ _ _ _ _ (by simp) hl (by omega) m hm]
    simp only []
    rw [expectByte_pre h (by omega), hx]
    exact hr
  · simp only [Bool.not_false, if_true] at hr
    have e : skipBlank s₁ p = q := by injection hr
    rw [skipBlank_pre h (by omega), takeByteIf_pre h (by omega), ht]
    simp only [Bool.not_false, if_true]
    exact hr

theorem pre_any_congr {α : Type} (l : List α) (f g : α → Bool) (h : ∀ a ∈ l, f a = g a) : l.any f = l.any g := by
  induction l with
  | nil => rfl
  | cons a t ih =>
    simp only [List.any_cons]
    rw [h a (List.mem_cons_self ..), ih (fun b hb => h b (List.mem_cons_of_mem _ hb))]

theorem pre_getIdentifierUnchecked_stop {s : Src} {p : Nat} {sp : Span} {q : Nat}
    (h : getIdentifierUnchecked s p = .ok sp q) : sp.stop = q := by
  unfold getIdentifierUnchecked at h
  simp only [] at h
  split at h
  · cases h
  · split at h
    · rename_i sp' hsl
      obtain ⟨rfl, _⟩ := slice_eq_some hsl
      injection h with h1 h2
      subst h1; exact h2
    · cases h

/-- the name of a message reference ends at or before the cursor -/
theorem pre_getInline_msg_stop {s : Src} {f : Nat} {ol : Bool} {p : Nat} {id : Span} {attr : Option Span} {q : Nat}
    (h : getInline s f ol p = .ok (.msg id attr) q) : id.stop ≤ q := by
  cases f with
  | zero => simp [getInline] at h
  | succ f =>
    simp only [getInline] at h
    split at h
    · split at h <;> contradiction
    · rename_i b hb
      split at h
      · rcases hr : scanString s (p + 1) with ⟨u, q1⟩ | ⟨e1, q1⟩ | m | _ <;> simp only [hr] at h <;> try contradiction
        rcases hr2 : expectByte s q1 34 with ⟨u2, q2⟩ | ⟨e1, q2⟩ | m | _ <;> simp only [hr2] at h <;> try contradiction
        split at h
        · contradiction
        · split at h
          · injection h with h1 _; cases h1
          · contradiction
      · split at h
        · rcases hr : getNumberLiteral s p with ⟨sp, q1⟩ | ⟨e1, q1⟩ | m | _ <;> simp only [hr] at h <;> try contradiction
          injection h with h1 _; cases h1
        · split at h
          · split at h
            · rcases hr : getIdentifierUnchecked s (p + 2) with ⟨id', q1⟩ | ⟨e1, q1⟩ | m | _ <;> simp only [hr] at h <;>
                try contradiction
              rcases hr2 : getAttributeAccessor s q1 with ⟨attr', q2⟩ | ⟨e1, q2⟩ | m | _ <;> simp only [hr2] at h <;>
                try contradiction
              rcases hr3 : getCallArguments s f q2 with ⟨args, q3⟩ | ⟨e1, q3⟩ | m | _ <;> simp only [hr3] at h <;>
                try contradiction
              injection h with h1 _; cases h1
            · rcases hr : getNumberLiteral s p with ⟨sp, q1⟩ | ⟨e1, q1⟩ | m | _ <;> simp only [hr] at h <;>
                try contradiction
              injection h with h1 _; cases h1
          · split at h
            · rcases hr : getIdentifier s (p + 1) with ⟨id', q1⟩ | ⟨e1, q1⟩ | m | _ <;> simp only [hr] at h <;>
                try contradiction
              injection h with h1 _; cases h1
            · split at h
              · rcases hr : getIdentifierUnchecked s (p + 1) with ⟨id', q1⟩ | ⟨e1, q1⟩ | m | _ <;> simp only [hr] at h <;>
                  try contradiction
                have hst := pre_getIdentifierUnchecked_stop hr
                rcases hr3 : getCallArguments s f q1 with ⟨args, q3⟩ | ⟨e1, q3⟩ | m | _ <;> simp only [hr3] at h <;>
                  try contradiction
                have b1 := ((mspecs_all s f).callArguments _).ok_le hr3
                cases args with
                | some pn =>
                  obtain ⟨pos, named⟩ := pn
                  simp only [] at h
                  split at h
                  · contradiction
                  · injection h with h1 _; cases h1
                | none =>
                  simp only [] at h
                  rcases hr2 : getAttributeAccessor s q3 with ⟨attr', q2⟩ | ⟨e1, q2⟩ | m | _ <;> simp only [hr2] at h <;>
                    try contradiction
                  have b2 := (getAttributeAccessor_mono s q3).ok_le hr2
                  injection h with h1 h2
                  cases h1
                  omega
              · split at h
                · rcases hr : getPlaceable s f (p + 1) with ⟨e', q1⟩ | ⟨e1, q1⟩ | m | _ <;> simp only [hr] at h <;>
                    try contradiction
                  injection h with h1 _; cases h1
                · split at h <;> contradiction

theorem callArgsLoop_pstep (h : Pre n s₁ s₂) {f : Nat} (IH : PSpecs n s₁ s₂ f)
    (pos : List (Inline Span)) (named : List (Span × Inline Span)) (p : Nat)
    (v : List (Inline Span) × List (Span × Inline Span)) (q : Nat) (hnamed : ∀ na ∈ named, na.1.stop ≤ n)
    (hr : getCallArgsLoop s₁ (f + 1) pos named p = .ok v q) (hq : q < n) (m : Nat) (hm : f ≤ m) :
    getCallArgsLoop s₂ (m + 1) pos named p = .ok v q := by
  have hpq := ((mspecs_all s₁ (f + 1)).callArgsLoop pos named p).ok_le hr
  have hp : p < n := by omega
  simp only [getCallArgsLoop] at hr ⊢
  rw [if_pos (show p < s₁.size by rw [h.size]; exact hp)] at hr
  rw [if_pos (h.lt₂ hp), h.cur_lt hp]
  split at hr
  · rename_i hc; rw [if_pos hc]; exact hr
  · rename_i hc
    rw [if_neg hc]
    have next_le : ∀ pos' named' q',
        getCallArgsLoop s₁ f pos' named' (skipBlank s₁ (takeByteIf s₁ (skipBlank s₁ q') 44).fst) = .ok v q →
        skipBlank s₁ q' ≤ q := by
      intro pos' named' q' hn
      have b2 := takeByteIf_le s₁ (skipBlank s₁ q') 44
      have b3 := (skipBlank_after s₁ (takeByteIf s₁ (skipBlank s₁ q') 44).fst).le
      have b4 := ((mspecs_all s₁ f).callArgsLoop _ _ _).ok_le hn
      omega
    have next_ok : ∀ pos' named' q', (∀ na ∈ named', na.1.stop ≤ n) →
        getCallArgsLoop s₁ f pos' named' (skipBlank s₁ (takeByteIf s₁ (skipBlank s₁ q') 44).fst) = .ok v q →
        getCallArgsLoop s₂ m pos' named' (skipBlank s₂ (takeByteIf s₂ (skipBlank s₂ q') 44).fst) = .ok v q := by
      intro pos' named' q' hn' hn
      have b1 := (skipBlank_after s₁ q').le
      have b2 := takeByteIf_le s₁ (skipBlank s₁ q') 44
      have b3 := (skipBlank_after s₁ (takeByteIf s₁ (skipBlank s₁ q') 44).fst).le
      have b4 := ((mspecs_all s₁ f).callArgsLoop _ _ _).ok_le hn
      rw [skipBlank_pre h (p := q') (by omega), takeByteIf_pre h (by omega), skipBlank_pre h (by omega)]
      exact IH.callArgsLoop _ _ _ _ _ hn' hn hq m hm
    rcases hi : getInline s₁ f false p with ⟨expr, q0⟩ | ⟨e1, q1⟩ | m' | _ <;> simp only [hi] at hr <;> try contradiction
    have l0 := (skipBlank_after s₁ q0).le
    have key : skipBlank s₁ q0 ≤ q := by
      split at hr
      · split at hr
        · split at hr
          · contradiction
          · rcases hi2 : getInline s₁ f true (skipBlank s₁ (skipBlank s₁ q0 + 1)) with ⟨val, q3⟩ | ⟨e1, q3⟩ | m' | _ <;>
              simp only [hi2] at hr <;> try contradiction
            have := next_le _ _ _ hr
            have := ((mspecs_all s₁ f).inline _ _).ok_le hi2
            have := (skipBlank_after s₁ (skipBlank s₁ q0 + 1)).le
            have := (skipBlank_after s₁ q3).le
            omega
        · split at hr
          · contradiction
          · have := next_le _ _ _ hr
            have := (skipBlank_after s₁ (skipBlank s₁ q0)).le
            omega
      · split at hr
        · contradiction
        · exact next_le _ _ _ hr
    rw [IH.inline _ _ _ _ hi (by omega) m hm]
    simp only []
    split at hr
    · rename_i id
      have hid : id.stop ≤ n := by have := pre_getInline_msg_stop hi; omega
      rw [skipBlank_pre h (by omega), h.cur_lt (by omega)]
      split at hr
      · rename_i hc58
        rw [if_pos hc58]
        have eany : named.any (fun na => spanBytes s₂ na.1 == spanBytes s₂ id) =
            named.any (fun na => spanBytes s₁ na.1 == spanBytes s₁ id) :=
          pre_any_congr _ _ _ (fun na hna => by rw [spanBytes_pre h (hnamed na hna), spanBytes_pre h hid])
        rw [eany]
        split at hr
        · contradiction
        · rename_i hany
          rw [if_neg hany]
          rcases hi2 : getInline s₁ f true (skipBlank s₁ (skipBlank s₁ q0 + 1)) with ⟨val, q3⟩ | ⟨e1, q3⟩ | m' | _ <;>
            simp only [hi2] at hr <;> try contradiction
          have b1 := next_le _ _ _ hr
          have b2 := ((mspecs_all s₁ f).inline _ _).ok_le hi2
          have b3 := (skipBlank_after s₁ (skipBlank s₁ q0 + 1)).le
          have b4 := (skipBlank_after s₁ q3).le
          rw [skipBlank_pre h (by omega), IH.inline _ _ _ _ hi2 (by omega) m hm]
          simp only []
          refine next_ok _ _ q3 ?_ hr
          intro na hna
          simp only [List.mem_append, List.mem_singleton] at hna
          rcases hna with hna | rfl
          · exact hnamed na hna
          · exact hid
      · rename_i hc58
        rw [if_neg hc58]
        split at hr
        · contradiction
        · rename_i hne
          rw [if_neg hne]
          exact next_ok _ _ _ hnamed hr
    · split at hr
      · contradiction
      · rename_i hne
        rw [if_neg hne]
        exact next_ok _ _ _ hnamed hr

theorem inline_pstep (h : Pre n s₁ s₂) {f : Nat} (IH : PSpecs n s₁ s₂ f) (ol : Bool) (p : Nat) (v : Inline Span) (q : Nat)
    (hr : getInline s₁ (f + 1) ol p = .ok v q) (hq : q < n) (m : Nat) (hm : f ≤ m) :
    getInline s₂ (m + 1) ol p = .ok v q := by
  have hpq := ((mspecs_all s₁ (f + 1)).inline ol p).ok_le hr
  have hp : p < n := by omega
  simp only [getInline] at hr ⊢
  rw [h.get p hp]
  split at hr
  · split at hr <;> contradiction
  · rename_i b hb
    split at hr
    · -- string literal
      rename_i hc; rw [if_pos hc]
      rcases hs : scanString s₁ (p + 1) with ⟨u, q1⟩ | ⟨e1, q1⟩ | m' | _ <;> simp only [hs] at hr <;> try contradiction
      rcases hx : expectByte s₁ q1 34 with ⟨u2, q2⟩ | ⟨e1, q2⟩ | m' | _ <;> simp only [hx] at hr <;> try contradiction
      obtain ⟨rfl, _⟩ := pre_expectByte_ok hx
      have b1 := (scanString_mono s₁ (p + 1)).ok_le hs
      simp only [usub, show 1 ≤ q1 + 1 by omega, if_true, Nat.add_sub_cancel] at hr ⊢
      have e : q1 + 1 = q := by
        split at hr
        · injection hr
        · contradiction
      have hp1 : p + 1 < n := by omega
      rw [(scanString_pre h hp1 u q1 hs).1]
      simp only []
      rw [expectByte_pre h (by omega), hx]
      simp only [show 1 ≤ q1 + 1 by omega, if_true, Nat.add_sub_cancel]
      rw [slice_pre h _ (by omega)]
      exact hr
    · rename_i hc; rw [if_neg hc]
      split at hr
      · -- number
        rename_i hc2; rw [if_pos hc2, (getNumberLiteral_pre h hp).1]
        exact hr
      · rename_i hc2; rw [if_neg hc2]
        split at hr
        · rename_i hc3; rw [if_pos hc3]
          have hb45 : b = 45 := by simpa using hc3
          have hp1 : p + 1 < n := h.succ_lt hb (by rw [hb45]; decide)
          rw [isIdentifierStart_pre h hp1]
          split at hr
          · -- term reference
            rename_i hc4; rw [if_pos hc4]
            rcases hid : getIdentifierUnchecked s₁ (p + 2) with ⟨id, q1⟩ | ⟨e1, q1⟩ | m' | _ <;> simp only [hid] at hr <;>
              try contradiction
            rcases hat : getAttributeAccessor s₁ q1 with ⟨attr, q2⟩ | ⟨e1, q2⟩ | m' | _ <;> simp only [hat] at hr <;>
              try contradiction
            rcases hca : getCallArguments s₁ f q2 with ⟨args, q3⟩ | ⟨e1, q3⟩ | m' | _ <;> simp only [hca] at hr <;>
              try contradiction
            have e : q3 = q := by injection hr
            have b1 := (getIdentifierUnchecked_mono s₁ (p + 2)).ok_le hid
            have b2 := (getAttributeAccessor_mono s₁ q1).ok_le hat
            have b3 := ((mspecs_all s₁ f).callArguments q2).ok_le hca
            rw [(getIdentifierUnchecked_pre h (p := p + 2) (by omega)).1, hid]
            simp only []
            rw [(getAttributeAccessor_pre h (p := q1) (by omega)).1, hat]
            simp only []
            rw [IH.callArguments _ _ _ hca (by omega) m hm]
            exact hr
          · rename_i hc4; rw [if_neg hc4, (getNumberLiteral_pre h hp).1]
            exact hr
        · rename_i hc3; rw [if_neg hc3]
          split at hr
          · -- variable
            rename_i hc4; rw [if_pos hc4]
            have hb36 : b = 36 := by
              simp only [Bool.and_eq_true, beq_iff_eq] at hc4; exact hc4.1
            have hp1 : p + 1 < n := h.succ_lt hb (by rw [hb36]; decide)
            rw [(getIdentifier_pre h hp1).1]
            exact hr
          · rename_i hc4; rw [if_neg hc4]
            split at hr
            · -- message reference / function call
              rename_i hc5; rw [if_pos hc5]
              have hne : b ≠ 10 := by intro e; subst e; revert hc5; decide
              have hp1 : p + 1 < n := h.succ_lt hb hne
              rcases hid : getIdentifierUnchecked s₁ (p + 1) with ⟨id, q1⟩ | ⟨e1, q1⟩ | m' | _ <;> simp only [hid] at hr <;>
                try contradiction
              rcases hca : getCallArguments s₁ f q1 with ⟨args, q2⟩ | ⟨e1, q2⟩ | m' | _ <;> simp only [hca] at hr <;>
                try contradiction
              have b1 := (getIdentifierUnchecked_mono s₁ (p + 1)).ok_le hid
              have b3 := ((mspecs_all s₁ f).callArguments q1).ok_le hca
              have hst := ((getIdentifierUnchecked_pre h hp1).2 id q1 hid)
              rw [(getIdentifierUnchecked_pre h hp1).1, hid]
              simp only []
              cases args with
              | some pn =>
                obtain ⟨pos, named⟩ := pn
                simp only [] at hr
                have e : q2 = q := by
                  split at hr
                  · contradiction
                  · injection hr
                rw [IH.callArguments _ _ _ hca (by omega) m hm]
                simp only []
                rw [isCallee_pre h (by omega)]
                exact hr
              | none =>
                simp only [] at hr
                rcases hat : getAttributeAccessor s₁ q2 with ⟨attr, q3⟩ | ⟨e1, q3⟩ | m' | _ <;> simp only [hat] at hr <;>
                  try contradiction
                have e : q3 = q := by injection hr
                have b2 := (getAttributeAccessor_mono s₁ q2).ok_le hat
                rw [IH.callArguments _ _ _ hca (by omega) m hm]
                simp only []
                rw [(getAttributeAccessor_pre h (p := q2) (by omega)).1, hat]
                exact hr
            · rename_i hc5; rw [if_neg hc5]
              split at hr
              · -- nested placeable
                rename_i hc6; rw [if_pos hc6]
                rcases hpl : getPlaceable s₁ f (p + 1) with ⟨e', q1⟩ | ⟨e1, q1⟩ | m' | _ <;> simp only [hpl] at hr <;>
                  try contradiction
                have e : q1 = q := by injection hr
                rw [IH.placeable _ _ _ hpl (by omega) m hm]
                exact hr
              · split at hr <;> contradiction

theorem variants_pstep (h : Pre n s₁ s₂) {f : Nat} (IH : PSpecs n s₁ s₂ f) (hd : Bool) (acc : List (Variant Span)) (p : Nat)
    (v : List (Variant Span)) (q : Nat)
    (hr : getVariants s₁ (f + 1) hd acc p = .ok v q) (hq : q < n) (m : Nat) (hm : f ≤ m) :
    getVariants s₂ (m + 1) hd acc p = .ok v q := by
  have hpq := ((mspecs_all s₁ (f + 1)).variants hd acc p).ok_le hr
  have hp : p < n := by omega
  simp only [getVariants] at hr ⊢
  rw [takeByteIf_pre h hp]
  have ht1 := takeByteIf_le s₁ p 42
  generalize takeByteIf s₁ p 42 = t at ht1 hr ⊢
  obtain ⟨p1, dflt⟩ := t
  simp only [] at ht1 hr ⊢
  split at hr
  · contradiction
  · rename_i hc; rw [if_neg hc]
    rcases takeByteIf_cases s₁ p1 91 with ⟨ht, hb⟩ | ⟨ht, _⟩ <;> rw [ht] at hr <;> simp only [] at hr
    · have hp1 : p1 + 1 < n := h.succ_lt hb (by decide)
      rw [takeByteIf_pre h (by omega), ht]
      simp only [Bool.not_true, Bool.false_eq_true, if_false] at hr ⊢
      rw [skipBlank_pre h (by omega)]
      have b0 := (skipBlank_after s₁ (p1 + 1)).le
      split at hr
      · rename_i key q0 heq
        have hk : variantKey s₁ (skipBlank s₁ (p1 + 1)) = .ok key q0 := heq
        rcases hx : expectByte s₁ (skipBlank s₁ q0) 93 with ⟨u, q2⟩ | ⟨e1, q2⟩ | m' | _ <;> simp only [hx] at hr <;>
          try contradiction
        obtain ⟨rfl, _⟩ := pre_expectByte_ok hx
        rcases hpat : getPattern s₁ f (skipBlank s₁ q0 + 1) with ⟨o, q3⟩ | ⟨e1, q3⟩ | m' | _ <;> simp only [hpat] at hr <;>
          try contradiction
        cases o with
        | none => simp only [] at hr; contradiction
        | some value =>
          simp only [] at hr
          have b1 := (variantKey_mono s₁ (skipBlank s₁ (p1 + 1))).ok_le hk
          have b2 := (skipBlank_after s₁ q0).le
          have b3 := ((mspecs_all s₁ f).pattern _).ok_le hpat
          have b4 := (skipBlank_after s₁ q3).le
          have b5 := ((mspecs_all s₁ f).variants _ _ _).ok_le hr
          have hp3 : skipBlank s₁ (p1 + 1) < n := by omega
          rw [isNumberStart_pre h hp3, (getNumberLiteral_pre h hp3).1, (getIdentifier_pre h hp3).1, heq]
          simp only []
          rw [skipBlank_pre h (by omega), expectByte_pre h (by omega), hx]
          simp only []
          rw [(IH.pattern _ _ _ (by omega) hpat).2 m hm]
          simp only []
          rw [skipBlank_pre h (by omega)]
          exact IH.variants _ _ _ _ _ hr hq m hm
      · contradiction
      · contradiction
      · contradiction
    · simp only [Bool.not_false, if_true] at hr
      have e : p1 = q := by
        split at hr
        · contradiction
        · split at hr
          · injection hr
          · contradiction
      rw [takeByteIf_pre h (by omega), ht]
      simp only [Bool.not_false, if_true]
      exact hr

end
end FluentProofs.Parser
