import FluentProofs.Cache
/-!
# Lemmas about the cache LTS: wake-up bookkeeping (no lost wake-up), progress, bounded drain
-/
namespace FluentProofs.Cache
open FluentModel.Cache

variable {α : Type}

end FluentProofs.Cache
