import FluentProofs.Cache
/-!
# Lemmas about the cache LTS: wake-up bookkeeping (no lost wake-up), progress, bounded drain

`WakeInv x s` is the bookkeeping invariant of `pending_wakes`, stated as the code makes it true.
`x = some c` is the intermediate form that holds while consumer `c` is being polled (after the executor
cleared `woken c`, before `poll_next` has either delivered or re-registered `c`'s waker).

Wakers are shared: consumer `c` is polled with the waker of task `s.grp c`, and waker `w` wakes every
consumer `t` with `s.grp t = w`.  `pending_wakes` and the source hold waker ids; everything below holds
for every waker assignment `grp` (`grp = id`: one waker per consumer).
-/
namespace FluentProofs.Cache
open FluentModel.Cache

variable {α : Type}

/-- a request that returned `Pending` and whose task has not been woken since -/
def Parked (s : St α) (t : Task) : Prop := (s.cons t).waiting = true ∧ (s.cons t).woken = false

/-- waker `w` belongs to (at least) one waiting request that stands at the end of the cache: some
consumer polled with `w` waits there -/
def Backed (s : St α) (w : Task) : Prop :=
  ∃ t, s.grp t = w ∧ (s.cons t).waiting = true ∧ (s.cons t).curr = s.items.length

theorem Backed.transfer {s s' : St α} {w : Task} (hg : s'.grp = s.grp)
    (hi : s'.items.length = s.items.length)
    (hc : ∀ t, (s.cons t).waiting = true → (s.cons t).curr = s.items.length →
      (s'.cons t).waiting = true ∧ (s'.cons t).curr = (s.cons t).curr)
    (h : Backed s w) : Backed s' w := by
  obtain ⟨t, h1, h2, h3⟩ := h
  have := hc t h2 h3
  exact ⟨t, by rw [hg]; exact h1, this.1, by rw [this.2, hi]; exact h3⟩

structure WakeInv (x : Option Task) (s : St α) : Prop where
  /-- only requests in flight wait -/
  act : ∀ t, (s.cons t).waiting = true → (s.cons t).active = true
  /-- every waker in `pending_wakes` belongs to a waiting request that stands at the end of the cache -/
  pend : ∀ w, w ∈ s.pending → Backed s w
  /-- every parked request stands at the end of the cache and its waker `grp t` is in `pending_wakes` -/
  park : ∀ t, x ≠ some t → Parked s t → (s.cons t).curr = s.items.length ∧ s.grp t ∈ s.pending
  /-- the waker the source holds is the last one registered (also in `pending_wakes`), a request polled
  with it waits at the end of the cache, and the source really is pending -/
  srcw : ∀ w, s.src.waker = some w → s.src.need ≠ 0 ∧ Backed s w ∧ s.pending.getLast? = some w
  /-- while anybody is parked, either the source holds a waker, or a waiting request at the end of
  the cache is runnable (or is the one being polled right now) -/
  hope : (∃ t, x ≠ some t ∧ Parked s t) → s.src.waker ≠ none ∨
      ∃ w, (s.cons w).waiting = true ∧ (s.cons w).curr = s.items.length ∧
        ((s.cons w).woken = true ∨ x = some w)

theorem wakeInv_init (script : List (Nat × α)) (e : Nat) (grp : Task → Task := id) :
    WakeInv none (init script e grp) := by
  constructor <;> simp [init, Parked]

/-- consumer `c` stops waiting somewhere else than at the end of the cache; nothing else changes -/
theorem wakeInv_leave {s : St α} {c : Task} (f : Consumer α → Consumer α)
    (hne : (s.cons c).curr ≠ s.items.length) (hf : (f (s.cons c)).waiting = false)
    (hs : WakeInv (some c) s) : WakeInv none (s.modCons c f) := by
  have hb : ∀ w, Backed s w → Backed (s.modCons c f) w := by
    intro w
    refine Backed.transfer rfl rfl ?_
    intro t h1 h2
    have ht : t ≠ c := fun e => hne (e ▸ h2)
    simp [ht, h1]
  refine ⟨?_, ?_, ?_, ?_, ?_⟩
  · intro t; by_cases ht : t = c
    · subst ht; simp [hf]
    · simpa [ht] using hs.act t
  · intro w hw; exact hb w (hs.pend w hw)
  · intro t _ hp
    by_cases ht : t = c
    · subst ht; simp [Parked, hf] at hp
    · have : Parked s t := by simpa [Parked, ht] using hp
      simpa [ht] using hs.park t (by simp [Ne.symm ht]) this
  · intro w hw
    have h := hs.srcw w hw
    exact ⟨h.1, hb w h.2.1, h.2.2⟩
  · rintro ⟨t, _, hp⟩
    have ht : t ≠ c := by
      intro e; subst e; simp [Parked, hf] at hp
    have hp' : Parked s t := by simpa [Parked, ht] using hp
    rcases hs.hope ⟨t, by simp [Ne.symm ht], hp'⟩ with h | ⟨w, hw1, hw2, hw3⟩
    · exact Or.inl h
    · have hwc : w ≠ c := fun e => hne (e ▸ hw2)
      refine Or.inr ⟨w, ?_, ?_, Or.inl ?_⟩
      · simpa [hwc] using hw1
      · simpa [hwc] using hw2
      · rcases hw3 with h | h
        · simpa [hwc] using h
        · exact absurd (Option.some.inj h).symm hwc

/-- after the source answered `Ready`, every registered waker has been called: nobody is parked -/
theorem no_parked_after_ready {s : St α} {c : Task} (hs : WakeInv (some c) s) (src' : Source α)
    (f : Consumer α → Consumer α) (its : List α) (hf : (f ((St.wakeAll { s with src := src', pending := [] } s.pending).cons c)).waiting = false)
    (t : Task) :
    ¬ Parked (St.modCons { (St.wakeAll { s with src := src', pending := [] } s.pending) with items := its } c f) t := by
  intro hp
  by_cases ht : t = c
  · subst ht; simp [Parked, hf] at hp
  · simp only [Parked, modCons_cons, ht, if_false, wakeAll_cons, Bool.or_eq_false_iff, decide_eq_false_iff_not] at hp
    have := hs.park t (by simp [Ne.symm ht]) ⟨hp.1, hp.2.1⟩
    exact hp.2.2 this.2

/-- a poll that returns `Pending` keeps every waker's waiting request … -/
theorem backed_park {s : St α} {c w : Task} (src' : Source α) (p : List Task) :
    Backed s w → Backed (St.modCons { s with src := src', pending := p } c park) w := by
  refine Backed.transfer rfl rfl ?_
  intro t h1 h2
  by_cases ht : t = c
  · subst ht; simp
  · simp [ht, h1]

/-- … and its own waker now belongs to the polled request -/
theorem backed_park_self {s : St α} {c : Task} (src' : Source α) (p : List Task)
    (h : (s.cons c).curr = s.items.length) :
    Backed (St.modCons { s with src := src', pending := p } c park) (s.grp c) :=
  ⟨c, rfl, by simp, by simp [h]⟩

theorem wakeInv_pollNext {s : St α} {c : Task} (hact : (s.cons c).active = true)
    (hs : WakeInv (some c) s) : WakeInv none (pollNext s c).1 := by
  have hc := pollNext_cases s c
  generalize pollNext s c = r at hc
  cases hc with
  | cached h => exact wakeInv_leave _ (by omega) rfl hs
  | over h => exact wakeInv_leave _ (by omega) rfl hs
  | pend src' h hp =>
    obtain ⟨hn, rfl⟩ := poll_pending hp
    have hself := backed_park_self (s := s) (c := c)
      { s.src with waker := some (s.grp c), polls := s.src.polls + 1 } (s.pending ++ [s.grp c]) h
    refine ⟨?_, ?_, ?_, ?_, ?_⟩
    · intro t; by_cases ht : t = c
      · subst ht; simp [hact]
      · simpa [ht] using hs.act t
    · intro w hw
      have hw' : w ∈ s.pending ∨ w = s.grp c := by simpa using hw
      rcases hw' with hw' | rfl
      · exact backed_park _ _ (hs.pend w hw')
      · exact hself
    · intro t _ hp
      by_cases ht : t = c
      · subst ht; simp [h]
      · have hp' : Parked s t := by simpa [Parked, ht] using hp
        have := hs.park t (by simp [Ne.symm ht]) hp'
        simp [ht, this]
    · intro w hw
      have hw' : w = s.grp c := by simpa using hw.symm
      subst hw'
      refine ⟨?_, hself, by simp⟩
      simpa [Source.need] using hn
    · intro _; left; simp
  | item src' it h hp =>
    obtain ⟨hn, n, r, hr, rfl⟩ := poll_ready_some hp
    have hw : s.src.waker = none := by
      cases hw : s.src.waker with
      | none => rfl
      | some w => exact absurd hn (hs.srcw w hw).1
    have hnp := no_parked_after_ready hs { s.src with rest := r, polls := s.src.polls + 1, pulls := s.src.pulls + 1 }
      (deliver ((s.cons c).curr + 1) [it]) (s.items ++ [it]) rfl
    refine ⟨?_, ?_, ?_, ?_, ?_⟩
    · intro t; by_cases ht : t = c
      · subst ht; simp
      · simpa [ht, wakeAll_cons] using hs.act t
    · intro t htp; simp at htp
    · intro t _ hp; exact absurd hp (hnp t)
    · intro w hw'; simp [hw] at hw'
    · rintro ⟨t, _, hp⟩; exact absurd hp (hnp t)
  | ended src' h hp =>
    obtain ⟨hn, hr, he, rfl⟩ := poll_ready_none hp
    have hw : s.src.waker = none := by
      cases hw : s.src.waker with
      | none => rfl
      | some w => exact absurd hn (hs.srcw w hw).1
    have hnp := no_parked_after_ready hs { s.src with polls := s.src.polls + 1 }
      (advance ((s.cons c).curr + 1)) s.items rfl
    refine ⟨?_, ?_, ?_, ?_, ?_⟩
    · intro t; by_cases ht : t = c
      · subst ht; simp
      · simpa [ht, wakeAll_cons] using hs.act t
    · intro t htp; simp at htp
    · intro t _ hp; exact absurd hp (hnp t)
    · intro w hw'; simp [hw] at hw'
    · rintro ⟨t, _, hp⟩; exact absurd hp (hnp t)


/-- the executor takes task `c` off its run queue (clears `woken c`) and is about to poll it -/
theorem wakeInv_clearWoken {s : St α} (c : Task) (hs : WakeInv none s) :
    WakeInv (some c) (clearWoken s c) := by
  unfold clearWoken
  have hb : ∀ w, Backed s w → Backed (s.modCons c fun k => { k with woken := false }) w := by
    intro w
    refine Backed.transfer rfl rfl ?_
    intro t h1 h2
    by_cases ht : t = c
    · subst ht; simp [h1]
    · simp [ht, h1]
  refine ⟨?_, ?_, ?_, ?_, ?_⟩
  · intro t; by_cases ht : t = c
    · subst ht; simpa using hs.act t
    · simpa [ht] using hs.act t
  · intro w hw; exact hb w (hs.pend w hw)
  · intro t hx hp
    have ht : t ≠ c := fun e => hx (by rw [e])
    have hp' : Parked s t := by simpa [Parked, ht] using hp
    simpa [ht] using hs.park t (by simp) hp'
  · intro w hw
    have h := hs.srcw w hw
    exact ⟨h.1, hb w h.2.1, h.2.2⟩
  · rintro ⟨t, hx, hp⟩
    have ht : t ≠ c := fun e => hx (by rw [e])
    have hp' : Parked s t := by simpa [Parked, ht] using hp
    rcases hs.hope ⟨t, by simp, hp'⟩ with h | ⟨w, hw1, hw2, hw3⟩
    · exact Or.inl h
    · by_cases hwc : w = c
      · subst hwc
        exact Or.inr ⟨w, by simpa using hw1, by simpa using hw2, Or.inr rfl⟩
      · refine Or.inr ⟨w, by simpa [hwc] using hw1, by simpa [hwc] using hw2, Or.inl ?_⟩
        rcases hw3 with h | h
        · simpa [hwc] using h
        · cases h

/-- a poll that does not clear the flag first (a further `poll_next` inside the same task poll, or
any extra poll): the weaker intermediate invariant follows from the full one -/
theorem wakeInv_weaken {s : St α} (c : Task) (hs : WakeInv none s) : WakeInv (some c) s := by
  refine ⟨hs.act, hs.pend, fun t _ hp => hs.park t (by simp) hp, hs.srcw, ?_⟩
  rintro ⟨t, _, hp⟩
  rcases hs.hope ⟨t, by simp, hp⟩ with h | ⟨w, hw1, hw2, hw3⟩
  · exact Or.inl h
  · refine Or.inr ⟨w, hw1, hw2, ?_⟩
    rcases hw3 with h | h
    · exact Or.inl h
    · cases h

theorem wakeInv_startReq {s : St α} (c : Task) (d : Nat) (hs : WakeInv none s) :
    WakeInv none (startReq s c d) := by
  unfold startReq
  split
  · exact hs
  · rename_i hna
    have hnw : (s.cons c).waiting ≠ true := fun h => hna (hs.act c h)
    have hb : ∀ w, Backed s w → Backed (s.modCons c fun k =>
        { k with active := true, want := d, curr := 0, waiting := false, got := [] }) w := by
      intro w
      refine Backed.transfer rfl rfl ?_
      intro t h1 h2
      have ht : t ≠ c := fun e => hnw (e ▸ h1)
      simp [ht, h1]
    refine ⟨?_, ?_, ?_, ?_, ?_⟩
    · intro t; by_cases ht : t = c
      · subst ht; simp
      · simpa [ht] using hs.act t
    · intro w hw; exact hb w (hs.pend w hw)
    · intro t _ hp
      by_cases ht : t = c
      · subst ht; simp [Parked] at hp
      · have hp' : Parked s t := by simpa [Parked, ht] using hp
        simpa [ht] using hs.park t (by simp) hp'
    · intro w hw
      have h := hs.srcw w hw
      exact ⟨h.1, hb w h.2.1, h.2.2⟩
    · rintro ⟨t, _, hp⟩
      have ht : t ≠ c := by
        intro e; subst e; simp [Parked] at hp
      have hp' : Parked s t := by simpa [Parked, ht] using hp
      rcases hs.hope ⟨t, by simp, hp'⟩ with h | ⟨w, hw1, hw2, hw3⟩
      · exact Or.inl h
      · have hwc : w ≠ c := fun e => hnw (e ▸ hw1)
        refine Or.inr ⟨w, by simpa [hwc] using hw1, by simpa [hwc] using hw2, Or.inl ?_⟩
        rcases hw3 with h | h
        · simpa [hwc] using h
        · cases h

theorem wakeInv_finishReq {s : St α} (c : Task) (hs : WakeInv none s) :
    WakeInv none (finishReq s c) := by
  unfold finishReq
  split
  · exact hs
  · rename_i hnw
    have hb : ∀ w, Backed s w → Backed (s.modCons c fun k => { k with active := false }) w := by
      intro w
      refine Backed.transfer rfl rfl ?_
      intro t h1 h2
      by_cases ht : t = c
      · subst ht; simp [h1]
      · simp [ht, h1]
    refine ⟨?_, ?_, ?_, ?_, ?_⟩
    · intro t; by_cases ht : t = c
      · subst ht; intro h; simp at h; exact absurd h hnw
      · simpa [ht] using hs.act t
    · intro w hw; exact hb w (hs.pend w hw)
    · intro t _ hp
      by_cases ht : t = c
      · subst ht
        have hp' : Parked s t := by simpa [Parked] using hp
        simpa using hs.park t (by simp) hp'
      · have hp' : Parked s t := by simpa [Parked, ht] using hp
        simpa [ht] using hs.park t (by simp) hp'
    · intro w hw
      have h := hs.srcw w hw
      exact ⟨h.1, hb w h.2.1, h.2.2⟩
    · rintro ⟨t, _, hp⟩
      have hp' : Parked s t := by
        by_cases ht : t = c
        · subst ht; simpa [Parked] using hp
        · simpa [Parked, ht] using hp
      rcases hs.hope ⟨t, by simp, hp'⟩ with h | ⟨w, hw1, hw2, hw3⟩
      · exact Or.inl h
      · refine Or.inr ⟨w, ?_, ?_, Or.inl ?_⟩
        · by_cases ht : w = c
          · subst ht; simpa using hw1
          · simpa [ht] using hw1
        · by_cases ht : w = c
          · subst ht; simpa using hw2
          · simpa [ht] using hw2
        · rcases hw3 with h | h
          · by_cases ht : w = c
            · subst ht; simpa using h
            · simpa [ht] using h
          · cases h

theorem wakeInv_fireSrc {s : St α} (hs : WakeInv none s) : WakeInv none (fireSrc s) := by
  unfold fireSrc
  rcases fire_cases s.src with ⟨_, h⟩ | ⟨hn, src', h, _, _, _, _, _, hwn, _, _⟩
  · rw [h]; exact hs
  · rw [h]
    cases hw : s.src.waker with
    | none =>
      -- nobody registered: only the script moves
      refine ⟨hs.act, hs.pend, hs.park, ?_, ?_⟩
      · intro w hw'; simp [hwn] at hw'
      · intro hp
        rcases hs.hope hp with h | h
        · exact absurd hw h
        · exact Or.inr h
    | some w =>
      have hsw := hs.srcw w hw
      have hb : ∀ w', Backed s w' → Backed (St.wake { s with src := src' } w) w' := by
        intro w'
        refine Backed.transfer rfl rfl ?_
        intro t h1 h2
        by_cases ht : s.grp t = w
        · simp [ht, h1]
        · simp [ht, h1]
      refine ⟨?_, ?_, ?_, ?_, ?_⟩
      · intro t; by_cases ht : s.grp t = w
        · simpa [ht] using hs.act t
        · simpa [ht] using hs.act t
      · intro w' hw'; exact hb w' (hs.pend w' hw')
      · intro t _ hp
        by_cases ht : s.grp t = w
        · simp [Parked, ht] at hp
        · have hp' : Parked s t := by simpa [Parked, ht] using hp
          simpa [ht] using hs.park t (by simp) hp'
      · intro w' hw'; simp [hwn] at hw'
      · intro _
        -- the source's waker belongs to a waiting request at the end of the cache: it is runnable now
        obtain ⟨t, hg, h1, h2⟩ := hsw.2.1
        exact Or.inr ⟨t, by simpa [hg] using h1, by simpa [hg] using h2, Or.inl (by simp [hg])⟩

theorem wakeInv_step {s : St α} (l : Label) (hs : WakeInv none s) : WakeInv none (step s l) := by
  cases l with
  | start c d => exact wakeInv_startReq c d hs
  | poll c fresh =>
    simp only [step]
    split
    · rename_i hact
      cases fresh
      · exact wakeInv_pollNext hact (wakeInv_weaken c hs)
      · exact wakeInv_pollNext (by simpa [clearWoken] using hact) (wakeInv_clearWoken c hs)
    · exact hs
  | finish c => exact wakeInv_finishReq c hs
  | fire => exact wakeInv_fireSrc hs

theorem wakeInv_run {s : St α} (ls : List Label) (hs : WakeInv none s) : WakeInv none (run s ls) := by
  induction ls generalizing s with
  | nil => exact hs
  | cons l r ih => exact ih (wakeInv_step l hs)

/-- Progress: while a request is waiting, either a waiting request's task is runnable, or the source is
pending and holds the waker `grp t` of a parked request `t` (so the source's next event makes that
request's task runnable). -/
theorem progress_of_wakeInv {s : St α} (hs : WakeInv none s) (c : Task) (hc : (s.cons c).waiting = true) :
    (∃ t, (s.cons t).waiting = true ∧ (s.cons t).woken = true) ∨
    (s.src.need ≠ 0 ∧ ∃ t, s.src.waker = some (s.grp t) ∧ Parked s t) := by
  cases hcw : (s.cons c).woken with
  | true => exact Or.inl ⟨c, hc, hcw⟩
  | false =>
    rcases hs.hope ⟨c, by simp, hc, hcw⟩ with h | ⟨w, hw1, _, hw3⟩
    · cases hw : s.src.waker with
      | none => exact absurd hw h
      | some w =>
        obtain ⟨hn, ⟨t, hg, ht1, _⟩, _⟩ := hs.srcw w hw
        cases hww : (s.cons t).woken with
        | true => exact Or.inl ⟨t, ht1, hww⟩
        | false => exact Or.inr ⟨hn, t, by rw [hg], ht1, hww⟩
    · rcases hw3 with h | h
      · exact Or.inl ⟨w, hw1, h⟩
      · cases h


/-! ### bounded drain: a termination measure for executors that only take useful steps -/

/-- `fire` events the source still needs in total -/
def totalNeed (src : Source α) : Nat := (src.rest.map (·.1)).sum + src.endNeed

/-- number of tasks `< k` whose request waits -/
def nWaiting (k : Nat) (s : St α) : Nat := (List.range k).countP fun t => (s.cons t).waiting
/-- number of tasks `< k` whose request waits and whose waker has fired (runnable) -/
def nRunnable (k : Nat) (s : St α) : Nat :=
  (List.range k).countP fun t => (s.cons t).waiting && (s.cons t).woken

/-- the measure, for wakers that are each shared by at most `g` of the consumers `< k` (one source
event can make up to `g` waiting requests runnable) -/
def measureG (g k : Nat) (s : St α) : Nat :=
  (g + 1) * totalNeed s.src + (k + 1) * nWaiting k s + nRunnable k s

/-- the measure for wakers that are not shared (`g = 1`) -/
def measure (k : Nat) (s : St α) : Nat :=
  2 * totalNeed s.src + (k + 1) * nWaiting k s + nRunnable k s

theorem measureG_one (k : Nat) (s : St α) : measureG 1 k s = measure k s := rfl

/-- every waker is shared by at most `g` of the consumers `< k` -/
def GroupBound (g k : Nat) (grp : Task → Task) : Prop :=
  ∀ w, (List.range k).countP (fun t => decide (grp t = w)) ≤ g

/-- a step a fair executor / an eventually-yielding source takes: poll a task `< k` whose waiting
request has been woken, or deliver an event to a pending source -/
def Useful (k : Nat) (s : St α) : Label → Prop
  | .poll c fresh => fresh = true ∧ c < k ∧ (s.cons c).waiting = true ∧ (s.cons c).woken = true
  | .fire => s.src.need ≠ 0
  | _ => False

theorem countP_update (p p' : Nat → Bool) (k c : Nat) (hc : c < k) (h : ∀ t, t ≠ c → p' t = p t) :
    (List.range k).countP p' + (p c).toNat = (List.range k).countP p + (p' c).toNat := by
  induction k with
  | zero => omega
  | succ k ih =>
    simp only [List.range_succ, List.countP_append, List.countP_cons, List.countP_nil]
    by_cases hk : c = k
    · subst hk
      have : (List.range c).countP p' = (List.range c).countP p := by
        apply List.countP_congr
        intro t ht
        have : t ≠ c := by have := List.mem_range.1 ht; omega
        simp [h t this]
      rw [this]
      cases p c <;> cases p' c <;> simp
    · have := ih (by omega)
      have hk' := h k (Ne.symm hk)
      rw [hk']
      omega

theorem countP_range_le (p : Nat → Bool) (k : Nat) : (List.range k).countP p ≤ k := by
  have := List.countP_le_length (p := p) (l := List.range k)
  simpa using this

/-- no waker is shared by more than all `k` consumers -/
theorem groupBound_self (k : Nat) (grp : Task → Task) : GroupBound k k grp :=
  fun _ => countP_range_le _ k

/-- one waker per consumer -/
theorem groupBound_id (k : Nat) : GroupBound 1 k id := by
  intro w
  induction k with
  | zero => simp
  | succ k ih =>
    simp only [List.range_succ, List.countP_append, List.countP_cons, List.countP_nil, id]
    by_cases hk : k = w
    · subst hk
      have : (List.range k).countP (fun t => decide (t = k)) = 0 := by
        apply List.countP_eq_zero.2
        intro t ht
        have := List.mem_range.1 ht
        simp; omega
      simp [this]
    · simp only [id] at ih
      simp [hk]; exact ih

theorem countP_le_add (l : List Nat) (p' p q : Nat → Bool)
    (h : ∀ t ∈ l, p' t = true → p t = true ∨ q t = true) :
    l.countP p' ≤ l.countP p + l.countP q := by
  induction l with
  | nil => simp
  | cons a r ih =>
    have ih := ih (fun t ht => h t (List.mem_cons_of_mem _ ht))
    have ha := h a (List.mem_cons_self ..)
    simp only [List.countP_cons]
    cases hp' : p' a with
    | false => simp; omega
    | true =>
      rcases ha hp' with h1 | h1
      · simp [h1]; omega
      · simp [h1]; omega

theorem nRunnable_le_nWaiting (k : Nat) (s : St α) : nRunnable k s ≤ nWaiting k s := by
  unfold nRunnable nWaiting
  apply List.countP_mono_left
  intro t _ h
  simp only [Bool.and_eq_true] at h
  exact h.1

theorem totalNeed_fire {src src' : Source α} {w : Option Task} (hn : src.need ≠ 0)
    (h : src.fire = (src', w)) : totalNeed src' + 1 = totalNeed src := by
  unfold Source.fire at h
  simp only [hn, if_false] at h
  unfold totalNeed
  cases hr : src.rest with
  | nil =>
    simp only [hr, Prod.mk.injEq] at h
    simp only [Source.need, hr] at hn
    rw [← h.1]; simp; omega
  | cons p r =>
    obtain ⟨n, it⟩ := p
    simp only [hr, Prod.mk.injEq] at h
    simp only [Source.need, hr] at hn
    rw [← h.1]; simp; omega

theorem totalNeed_poll {src src' : Source α} {w : Task} {r : PollRes α}
    (h : src.poll w = (src', r)) : totalNeed src' = totalNeed src := by
  cases r with
  | pending => obtain ⟨_, rfl⟩ := poll_pending h; rfl
  | ready v =>
    cases v with
    | none => obtain ⟨_, _, _, rfl⟩ := poll_ready_none h; rfl
    | some it =>
      obtain ⟨hn, n, r, hr, rfl⟩ := poll_ready_some h
      have : n = 0 := by simpa [Source.need, hr] using hn
      subst this
      simp [totalNeed, hr]

theorem nWaiting_update (k : Nat) (s s' : St α) (c : Task) (hc : c < k)
    (h : ∀ t, t ≠ c → (s'.cons t).waiting = (s.cons t).waiting) :
    nWaiting k s' + ((s.cons c).waiting).toNat = nWaiting k s + ((s'.cons c).waiting).toNat :=
  countP_update (fun t => (s.cons t).waiting) (fun t => (s'.cons t).waiting) k c hc h

theorem nRunnable_update (k : Nat) (s s' : St α) (c : Task) (hc : c < k)
    (h : ∀ t, t ≠ c → ((s'.cons t).waiting && (s'.cons t).woken) = ((s.cons t).waiting && (s.cons t).woken)) :
    nRunnable k s' + ((s.cons c).waiting && (s.cons c).woken).toNat
      = nRunnable k s + ((s'.cons c).waiting && (s'.cons c).woken).toNat :=
  countP_update (fun t => (s.cons t).waiting && (s.cons t).woken)
    (fun t => (s'.cons t).waiting && (s'.cons t).woken) k c hc h

theorem nWaiting_congr (k : Nat) (s s' : St α)
    (h : ∀ t, (s'.cons t).waiting = (s.cons t).waiting) : nWaiting k s' = nWaiting k s := by
  unfold nWaiting
  exact List.countP_congr (fun t _ => by simp [h t])

theorem nRunnable_congr (k : Nat) (s s' : St α)
    (h : ∀ t, t < k → ((s'.cons t).waiting && (s'.cons t).woken) = ((s.cons t).waiting && (s.cons t).woken)) :
    nRunnable k s' = nRunnable k s := by
  unfold nRunnable
  exact List.countP_congr (fun t ht => by rw [h t (List.mem_range.1 ht)])

theorem toNat_le_one (b : Bool) : b.toNat ≤ 1 := by cases b <;> simp

theorem arith_leave {k M W V W' V' : Nat} (hW : W' + 1 = W) (hWk : W ≤ k) (hV : V' ≤ W') (hV1 : 1 ≤ V) :
    M + (k + 1) * W' + V' < M + (k + 1) * W + V := by
  subst hW; rw [Nat.mul_succ]; omega

theorem arith_fire {g N N' M V V' : Nat} (hN : N' + 1 = N) (hV : V' ≤ V + g) :
    (g + 1) * N' + M + V' < (g + 1) * N + M + V := by
  subst hN; rw [Nat.mul_succ]; omega

/-- a useful step strictly decreases the measure -/
theorem measure_decreases {g k : Nat} {s : St α} {l : Label} (hs : WakeInv none s)
    (hg : GroupBound g k s.grp) (hu : Useful k s l) :
    measureG g k (step s l) < measureG g k s := by
  cases l with
  | start c d => exact absurd hu (by simp [Useful])
  | finish c => exact absurd hu (by simp [Useful])
  | fire =>
    have hn : s.src.need ≠ 0 := hu
    simp only [step, fireSrc]
    cases hf : s.src.fire with
    | mk src' w =>
      have hN := totalNeed_fire hn hf
      cases w with
      | none =>
        have hW : nWaiting k { s with src := src' } = nWaiting k s := rfl
        have hV : nRunnable k { s with src := src' } = nRunnable k s := rfl
        simp only [measureG, hW, hV]
        exact arith_fire hN (Nat.le_add_right _ _)
      | some w =>
        have hW : nWaiting k (St.wake { s with src := src' } w) = nWaiting k s :=
          nWaiting_congr k s _ (by
            intro t
            by_cases ht : s.grp t = w
            · simp [ht]
            · simp [ht])
        -- the waker makes at most its `g` consumers runnable
        have hV : nRunnable k (St.wake { s with src := src' } w) ≤ nRunnable k s + g := by
          refine Nat.le_trans (countP_le_add _ _ (fun t => (s.cons t).waiting && (s.cons t).woken)
            (fun t => decide (s.grp t = w)) ?_) (Nat.add_le_add_left (hg w) _)
          intro t _ h
          by_cases ht : s.grp t = w
          · exact Or.inr (by simp [ht])
          · exact Or.inl (by simpa [ht] using h)
        have hsrc : (St.wake { s with src := src' } w).src = src' := rfl
        simp only [measureG, hsrc, hW]
        exact arith_fire hN hV
  | poll c fresh =>
    obtain ⟨rfl, hck, hcw, hcwk⟩ := hu
    have hact := hs.act c hcw
    simp only [step, hact, if_true]
    -- clearing the flag makes `c` not runnable
    have hW1 : nWaiting k (clearWoken s c) = nWaiting k s :=
      nWaiting_congr k s _ (by
        intro t
        by_cases ht : t = c
        · subst ht; simp [clearWoken]
        · simp [clearWoken, ht])
    have hV1 : nRunnable k (clearWoken s c) + 1 = nRunnable k s := by
      have := nRunnable_update k s (clearWoken s c) c hck (by intro t ht; simp [clearWoken, ht])
      simpa [clearWoken, hcw, hcwk] using this
    have hN1 : totalNeed (clearWoken s c).src = totalNeed s.src := rfl
    have hcw1 : ((clearWoken s c).cons c).waiting = true := by simpa [clearWoken] using hcw
    have hcn1 : ((clearWoken s c).cons c).woken = false := by simp [clearWoken]
    generalize clearWoken s c = s1 at hW1 hV1 hN1 hcw1 hcn1
    have hWk : nWaiting k s ≤ k := countP_range_le _ k
    have hV0 : 1 ≤ nRunnable k s := by omega
    -- `c` leaves the waiting set, all other waiting flags stay
    have leave : ∀ s' : St α, (s'.cons c).waiting = false →
        (∀ t, t ≠ c → (s'.cons t).waiting = (s1.cons t).waiting) →
        totalNeed s'.src = totalNeed s1.src → measureG g k s' < measureG g k s := by
      intro s' h1 h2 h3
      have := nWaiting_update k s1 s' c hck h2
      simp only [h1, hcw1, Bool.toNat_true, Bool.toNat_false] at this
      have hW : nWaiting k s' + 1 = nWaiting k s := by omega
      simp only [measureG, h3, hN1]
      exact arith_leave hW hWk (nRunnable_le_nWaiting k s') hV0
    have hc := pollNext_cases s1 c
    generalize pollNext s1 c = r at hc
    cases hc with
    | cached h => exact leave _ (by simp) (by intro t ht; simp [ht]) rfl
    | over h => exact leave _ (by simp) (by intro t ht; simp [ht]) rfl
    | item src' it h hp =>
      exact leave _ (by simp) (by intro t ht; simp [ht, wakeAll_cons]) (by simpa using totalNeed_poll hp)
    | ended src' h hp =>
      exact leave _ (by simp) (by intro t ht; simp [ht, wakeAll_cons]) (by simpa using totalNeed_poll hp)
    | pend src' h hp =>
      have hN := totalNeed_poll hp
      have hW : nWaiting k (St.modCons { s1 with src := src', pending := s1.pending ++ [s1.grp c] } c park)
          = nWaiting k s1 :=
        nWaiting_congr k s1 _ (by
          intro t
          by_cases ht : t = c
          · subst ht; simp [hcw1]
          · simp [ht])
      have hV : nRunnable k (St.modCons { s1 with src := src', pending := s1.pending ++ [s1.grp c] } c park)
          = nRunnable k s1 :=
        nRunnable_congr k s1 _ (by
          intro t _
          by_cases ht : t = c
          · subst ht; simp [hcn1]
          · simp [ht])
      have hsrc : (St.modCons { s1 with src := src', pending := s1.pending ++ [s1.grp c] } c park).src = src' := rfl
      simp only [measureG, hsrc, hV, hW, hN, hW1]
      rw [← hN1]
      omega

/-- a run in which every step is useful at the moment it is taken -/
def UsefulRun (k : Nat) : St α → List Label → Prop
  | _, [] => True
  | s, l :: r => Useful k s l ∧ UsefulRun k (step s l) r

/-- Bounded drain: from a state satisfying the wake-up invariant, an executor that only takes useful
steps (polls woken waiting tasks, lets the pending source deliver events) can take at most
`measureG g k s` of them, where no waker is shared by more than `g` of the consumers `< k`. -/
theorem usefulRun_length_le {g k : Nat} {s : St α} (ls : List Label) (hs : WakeInv none s)
    (hg : GroupBound g k s.grp)
    (hu : UsefulRun k s ls) : ls.length + measureG g k (run s ls) ≤ measureG g k s := by
  induction ls generalizing s with
  | nil => simp [run]
  | cons l r ih =>
    have h1 := measure_decreases hs hg hu.1
    have h2 := ih (wakeInv_step l hs) (by rw [step_grp]; exact hg) hu.2
    have h3 : run s (l :: r) = run (step s l) r := rfl
    rw [h3, List.length_cons]
    omega


/-- while somebody waits, a useful step exists (no stuck state) -/
theorem useful_exists {k : Nat} {s : St α} (hs : WakeInv none s)
    (hk : ∀ t, (s.cons t).waiting = true → t < k) (c : Task) (hc : (s.cons c).waiting = true) :
    ∃ l, Useful k s l := by
  rcases progress_of_wakeInv hs c hc with ⟨w, h1, h2⟩ | ⟨hn, _⟩
  · exact ⟨.poll w true, rfl, hk w h1, h1, h2⟩
  · exact ⟨.fire, hn⟩

/-- when a poll of the source is `Ready`, every registered waker is called: nobody stays parked -/
theorem ready_wakes_all {s : St α} (hs : WakeInv none s) (c : Task) (fresh : Bool)
    (ha : (s.cons c).active = true) (hcur : (s.cons c).curr = s.items.length) (hn : s.src.need = 0)
    (t : Task) : ¬ Parked (step s (.poll c fresh)) t := by
  simp only [step, ha, if_true]
  have key : ∀ s1 : St α, WakeInv (some c) s1 → (s1.cons c).curr = s1.items.length → s1.src.need = 0 →
      ¬ Parked (pollNext s1 c).1 t := by
    intro s1 hs1 hcur1 hn1
    have hc := pollNext_cases s1 c
    generalize pollNext s1 c = r at hc
    cases hc with
    | cached h => omega
    | over h => omega
    | pend src' h hp => exact absurd hn1 (poll_pending hp).1
    | item src' it h hp => exact no_parked_after_ready hs1 _ _ _ rfl t
    | ended src' h hp => exact no_parked_after_ready hs1 src' (advance ((s1.cons c).curr + 1)) s1.items rfl t
  cases fresh
  · exact key s (wakeInv_weaken c hs) hcur hn
  · exact key (clearWoken s c) (wakeInv_clearWoken c hs) (by simpa [clearWoken] using hcur) hn

/-- the source is polled by no label other than a poll of a stream standing at the end of the cache -/
theorem step_polls (s : St α) (l : Label) :
    (step s l).src.polls = s.src.polls ∨
    ∃ c fresh, l = .poll c fresh ∧ (s.cons c).active = true ∧ (s.cons c).curr = s.items.length ∧
      (step s l).src.polls = s.src.polls + 1 := by
  cases l with
  | start c d => left; simp only [step, startReq]; split <;> rfl
  | finish c => left; simp only [step, finishReq]; split <;> rfl
  | fire =>
    left
    simp only [step, fireSrc]
    rcases fire_cases s.src with ⟨_, h⟩ | ⟨_, src', h, _, _, _, _, hp, _⟩
    · rw [h]
    · rw [h]; cases s.src.waker <;> exact hp
  | poll c fresh =>
    simp only [step]
    split
    · rename_i ha
      have key : ∀ s1 : St α, (pollNext s1 c).1.src.polls = s1.src.polls ∨
          ((s1.cons c).curr = s1.items.length ∧ (pollNext s1 c).1.src.polls = s1.src.polls + 1) := by
        intro s1
        have hc := pollNext_cases s1 c
        generalize pollNext s1 c = r at hc
        cases hc with
        | cached h => exact Or.inl rfl
        | over h => exact Or.inl rfl
        | pend src' h hp => obtain ⟨_, rfl⟩ := poll_pending hp; exact Or.inr ⟨h, rfl⟩
        | item src' it h hp =>
          obtain ⟨_, n, r, _, rfl⟩ := poll_ready_some hp; exact Or.inr ⟨h, by simp⟩
        | ended src' h hp =>
          obtain ⟨_, _, _, rfl⟩ := poll_ready_none hp; exact Or.inr ⟨h, by simp⟩
      cases fresh
      · rcases key s with h | ⟨h1, h2⟩
        · exact Or.inl h
        · exact Or.inr ⟨c, false, rfl, ha, h1, h2⟩
      · rcases key (clearWoken s c) with h | ⟨h1, h2⟩
        · exact Or.inl h
        · exact Or.inr ⟨c, true, rfl, ha, by simpa [clearWoken] using h1, h2⟩
    · exact Or.inl rfl

end FluentProofs.Cache
