import FluentProofs.SerializerCongr
import FluentProofs.ParserHoareExpr
/-!
# Serializer lemmas, part 8: the parser produces line-split trees (C04)

Every text element of every pattern in the tree returned by `parse` is a `lineText` (non-empty,
`\n` only as its last byte, no `\r\n`).  Partial-correctness reasoning along the eight mutually
recursive parser functions (joint induction on fuel, as in `ParserHoareExpr`), with an invariant
on the placeholders collected by `get_pattern`.  Consequence: `C04_roundtrip_statement` implies
`C04_fixpoint_statement`.
-/
namespace FluentProofs.Ser
open FluentModel FluentModel.Syntax FluentModel.Syntax.Ser FluentProofs.Parser

/-! ## byte ranges that are line texts -/

/-- `[a, b)` contains `\n` at most as its last byte, and no `\r\n` -/
def LTR (s : Src) (a b : Nat) : Prop :=
  (∀ j, a ≤ j → j + 1 < b → s[j]? ≠ some 10) ∧ (∀ j, a ≤ j → j + 1 < b → ¬(s[j]? = some 13 ∧ s[j + 1]? = some 10))

theorem LTR.sub {s : Src} {a b a' b' : Nat} (h : LTR s a b) (ha : a ≤ a') (hb : b' ≤ b) : LTR s a' b' :=
  ⟨fun j h1 h2 => h.1 j (by omega) (by omega), fun j h1 h2 => h.2 j (by omega) (by omega)⟩

theorem lineText_of_list (l : Bytes) (hne : l ≠ [])
    (h1 : ∀ j, j + 1 < l.length → l[j]? ≠ some 10)
    (h2 : ∀ j, j + 1 < l.length → ¬(l[j]? = some 13 ∧ l[j + 1]? = some 10)) : lineText l = true := by
  induction l with
  | nil => exact absurd rfl hne
  | cons x xs ih =>
    cases xs with
    | nil => rfl
    | cons y ys =>
      rw [lineText]
      have hx := h1 0 (by simp)
      have hxy := h2 0 (by simp)
      simp only [List.getElem?_cons_zero, List.getElem?_cons_succ, Nat.zero_add] at hx hxy
      have ih' := ih (by simp) (fun j hj => by have := h1 (j + 1) (by simpa using hj); simpa using this)
        (fun j hj => by have := h2 (j + 1) (by simpa using hj); simpa using this)
      simp only [ih', Bool.and_true, Bool.and_eq_true, bne_iff_ne, ne_eq, Bool.not_eq_true', Bool.and_eq_false_iff,
        beq_eq_false_iff_ne]
      refine ⟨by simpa using hx, ?_⟩
      by_cases hx13 : x = 13
      · right; intro hy; exact hxy ⟨by simp [hx13], by simp [hy]⟩
      · left; exact hx13

theorem lineText_span {s : Src} {a b : Nat} (h : LTR s a b) (hab : a < b) (hb : b ≤ s.size) :
    lineText (spanBytes s ⟨a, b⟩) = true := by
  have hlen : (spanBytes s ⟨a, b⟩).length = b - a := by simp [spanBytes]; omega
  have hget : ∀ j, j < b - a → (spanBytes s ⟨a, b⟩)[j]? = s[a + j]? := by
    intro j hj
    simp only [spanBytes, Array.getElem?_toList, Array.getElem?_extract]
    simp
    intro h'; omega
  apply lineText_of_list
  · intro h0; rw [h0] at hlen; simp at hlen; omega
  · intro j hj
    rw [hlen] at hj
    rw [hget j (by omega)]
    exact h.1 (a + j) (by omega) (by omega)
  · intro j hj
    rw [hlen] at hj
    rw [hget j (by omega), hget (j + 1) (by omega)]
    have := h.2 (a + j) (by omega) (by omega)
    rwa [Nat.add_assoc] at this

/-! ## `get_text_slice` cuts at the first line feed -/

theorem memchr3Go_first {s : Src} {n p e : Nat} (h : memchr3Go s n p = some e) :
    ∀ j, p ≤ j → j < e → s[j]? ≠ some 10 := by
  induction n generalizing p with
  | zero => simp [memchr3Go] at h
  | succ n ih =>
    simp only [memchr3Go] at h
    split at h
    · simp at h
    · rename_i b hb
      split at h
      · simp at h; subst h; intro j h1 h2; omega
      · rename_i hc
        intro j h1 h2
        by_cases hj : j = p
        · subst hj; rw [hb]; intro h10; cases h10; simp at hc
        · exact ih h j (by omega) h2

theorem memchr3Go_none {s : Src} {n p : Nat} (h : memchr3Go s n p = none) (hn : s.size - p ≤ n) :
    ∀ j, p ≤ j → s[j]? ≠ some 10 := by
  induction n generalizing p with
  | zero =>
    intro j hj h10; have := get_lt h10; omega
  | succ n ih =>
    simp only [memchr3Go] at h
    split at h
    · rename_i hb
      intro j hj h10; have := get_lt h10
      have : s[p]? ≠ none := by simp; omega
      exact this hb
    · rename_i b hb
      split at h
      · simp at h
      · rename_i hc
        intro j h1
        by_cases hj : j = p
        · subst hj; rw [hb]; intro h10; cases h10; simp at hc
        · exact ih h (by omega) j (by omega)

/-- what `get_text_slice` guarantees about line feeds in the slice `[p, stop)` -/
def TextSliceLS (s : Src) (p : Nat) (v : Nat × Nat × Bool × Termination) : Prop :=
  v.1 = p ∧
  (v.2.2.2 = .lineFeed → p < v.2.1 ∧ s[v.2.1 - 1]? = some 10 ∧ (∀ j, p ≤ j → j + 1 < v.2.1 → s[j]? ≠ some 10) ∧
    (p + 1 < v.2.1 → s[v.2.1 - 2]? ≠ some 13)) ∧
  (v.2.2.2 ≠ .lineFeed → ∀ j, p ≤ j → j < v.2.1 → s[j]? ≠ some 10)

theorem getTextSlice_ls (s : Src) (p : Nat) (v : Nat × Nat × Bool × Termination) (q : Nat)
    (h : getTextSlice s p = .ok v q) : TextSliceLS s p v := by
  unfold getTextSlice at h
  split at h
  · cases h
    refine ⟨rfl, by simp, ?_⟩
    intro _ j h1 h2; simp at h2; omega
  · split at h
    · rename_i hm
      cases h
      refine ⟨rfl, by simp, ?_⟩
      intro _ j h1 _
      exact memchr3Go_none hm (Nat.le_refl _) j h1
    · rename_i e hm
      have hfirst := memchr3Go_first hm
      have ⟨hpe, _⟩ := memchr3Go_some hm
      split at h
      · cases h
      · rename_i h10
        have hlt := get_lt h10
        split at h
        · rename_i hc
          cases h
          refine ⟨rfl, by simp, ?_⟩
          intro _ j h1 h2
          exact hfirst j h1 (by simp only [] at h2; omega)
        · rename_i hc
          cases h
          refine ⟨rfl, ?_, by simp⟩
          intro _
          refine ⟨by simp only []; omega, by simpa using h10, ?_, ?_⟩
          · intro j h1 h2; exact hfirst j h1 (by simp only [] at h2; omega)
          · intro hp1 h13
            simp only [] at hp1 h13
            apply hc
            refine ⟨by omega, ?_⟩
            rw [show e + 1 - 2 = e - 1 by omega] at h13
            simp [h13]
      · rename_i h123
        cases h
        refine ⟨rfl, by simp, ?_⟩
        intro _ j h1 h2
        exact hfirst j h1 h2
      · cases h

/-! ## `trim` of the last text element -/

theorem trimEndGo_bounds (s : Src) (start n e : Nat) (h : start ≤ e) :
    start ≤ trimEndGo s start n e ∧ trimEndGo s start n e ≤ e := by
  induction n generalizing e with
  | zero => simp [trimEndGo, h]
  | succ n ih =>
    rw [trimEndGo]
    split
    · split
      · split
        · have := ih (e - 1) (by omega); omega
        · omega
      · omega
    · omega

theorem trimEndGo_mono (s : Src) (start start' : Nat) (hs : start' ≤ start) :
    ∀ (n n' e : Nat), start ≤ e → e - start ≤ n → e - start' ≤ n' → trimEndGo s start n e ≠ start →
      trimEndGo s start' n' e = trimEndGo s start n e := by
  intro n
  induction n with
  | zero =>
    intro n' e h1 h2 _ h4
    simp [trimEndGo] at h4; omega
  | succ n ih =>
    intro n' e h1 h2 h3 h4
    rw [trimEndGo] at h4 ⊢
    by_cases he : e > start
    · obtain ⟨m, rfl⟩ : ∃ m, n' = m + 1 := ⟨n' - 1, by omega⟩
      rw [trimEndGo]
      simp only [he, show e > start' by omega, if_true] at h4 ⊢
      cases hb : s[e - 1]? with
      | none => simp
      | some b =>
        simp only [hb] at h4 ⊢
        split
        · rename_i hc
          simp only [hc, if_true] at h4
          exact ih m (e - 1) (by omega) (by omega) (by omega) h4
        · rfl
    · simp only [he, if_false] at h4; omega

/-- the stop of `trim` does not depend on where the slice starts, as long as something survives -/
theorem trimEnd_mono (s : Src) (start start' stop : Nat) (hs : start' ≤ start) (hle : start ≤ stop)
    (hsurv : (trimEnd s ⟨start, stop⟩).stop ≠ start) :
    (trimEnd s ⟨start', stop⟩).stop = (trimEnd s ⟨start, stop⟩).stop ∧ start < (trimEnd s ⟨start, stop⟩).stop ∧
      (trimEnd s ⟨start, stop⟩).stop ≤ stop := by
  unfold trimEnd at hsurv ⊢
  simp only at hsurv ⊢
  have hb := trimEndGo_bounds s start (stop - start) stop hle
  exact ⟨trimEndGo_mono s start start' hs _ _ stop hle (Nat.le_refl _) (Nat.le_refl _) hsurv, by omega, hb.2⟩

/-! ## the invariant of `get_pattern` -/

abbrev LSI (s : Src) (i : Inline Span) : Prop := lsInline (i.mapS (spanBytes s))
abbrev LSE (s : Src) (e : Expr Span) : Prop := lsExpr (e.mapS (spanBytes s))
abbrev LSP (s : Src) (p : List (PatElem Span)) : Prop := lsPat (mapPat (spanBytes s) p)
abbrev LSInl (s : Src) (xs : List (Inline Span)) : Prop := lsInl (mapInl (spanBytes s) xs)
abbrev LSNamed (s : Src) (xs : List (Span × Inline Span)) : Prop := lsNamed (mapNamed (spanBytes s) xs)
abbrev LSVariants (s : Src) (vs : List (Variant Span)) : Prop := lsVariants (mapVariants (spanBytes s) vs)

def PhLS (s : Src) : Placeholder → Prop
  | .placeable e => LSE s e
  | .text a b _ _ => LTR s a b

/-- the text placeholder keeps something after `trim` -/
def Surv (s : Src) : Placeholder → Prop
  | .placeable _ => True
  | .text a b ind _ => a + ind ≤ b ∧ (trimEnd s ⟨a + ind, b⟩).stop ≠ a + ind

structure StInv (s : Src) (st : PatState) : Prop where
  els : ∀ ph ∈ st.elements, PhLS s ph
  lnb : ∀ i, st.lastNonBlank = some i → ∃ ph, st.elements[i]? = some ph ∧ Surv s ph

theorem finishElements_ls (s : Src) (ci : Option Nat) (lnb : Nat) :
    ∀ (l : List Placeholder) (i : Nat) (r : List (PatElem Span)), (∀ ph ∈ l, PhLS s ph) →
      (∀ k ph, l[k]? = some ph → i + k = lnb → Surv s ph) →
      finishElements s ci lnb i l = some r → LSP s r := by
  intro l
  induction l with
  | nil => intro i r _ _ h; simp [finishElements] at h; subst h; simp [LSP, mapPat, lsPat]
  | cons ph rest ih =>
    intro i r hel hsurv h
    have hrest : ∀ ph ∈ rest, PhLS s ph := fun x hx => hel x (List.mem_cons_of_mem _ hx)
    have hsurv' : ∀ k ph, rest[k]? = some ph → i + 1 + k = lnb → Surv s ph := fun k ph hk hi =>
      hsurv (k + 1) ph (by simpa using hk) (by omega)
    have hph := hel ph (List.mem_cons_self)
    simp only [finishElements] at h
    split at h
    · simp at h; subst h; simp [LSP, mapPat, lsPat]
    · cases ph with
      | placeable e =>
        simp only [Option.map_eq_some_iff] at h
        obtain ⟨r', hr', rfl⟩ := h
        have := ih (i + 1) r' hrest hsurv' hr'
        simp only [LSP, mapPat, lsPat, PatElem.mapS, lsElem]
        exact ⟨hph, this⟩
      | text a b ind role =>
        have key : ∀ start', a ≤ start' → start' ≤ a + ind →
            (if (start' == b) = true then finishElements s ci lnb (i + 1) rest
              else match slice s start' b with
                | none => none
                | some sp => Option.map (fun x => PatElem.text (if (lnb == i) = true then trimEnd s sp else sp) :: x)
                    (finishElements s ci lnb (i + 1) rest)) = some r → LSP s r := by
          intro start' hs1 hs2 h
          split at h
          · exact ih (i + 1) r hrest hsurv' h
          · rename_i hne
            split at h
            · cases h
            · rename_i sp hsl
              obtain ⟨rfl, hvs⟩ := slice_eq_some hsl
              have hle : start' ≤ b := hvs.1
              have hb : b ≤ s.size := hvs.2.2.le
              have hlt : start' < b := by
                have : start' ≠ b := by simpa using hne
                omega
              simp only [Option.map_eq_some_iff] at h
              obtain ⟨r', hr', rfl⟩ := h
              have hr := ih (i + 1) r' hrest hsurv' hr'
              have hltr : LTR s start' b := (show LTR s a b from hph).sub hs1 (Nat.le_refl _)
              simp only [LSP, mapPat, lsPat, PatElem.mapS, lsElem]
              refine ⟨?_, hr⟩
              split
              · rename_i hi
                have hi' : lnb = i := by simpa using hi
                obtain ⟨hab, hsv⟩ := (show Surv s (.text a b ind role) from hsurv 0 _ (by simp) (by omega))
                obtain ⟨e1, e2, e3⟩ := trimEnd_mono s (a + ind) start' b hs2 hab hsv
                have : trimEnd s ⟨start', b⟩ = ⟨start', (trimEnd s ⟨a + ind, b⟩).stop⟩ := by
                  have h0 : (trimEnd s ⟨start', b⟩).start = start' := rfl
                  cases ht : trimEnd s ⟨start', b⟩ with
                  | mk x y => rw [ht] at e1 h0; simp at e1 h0; simp [e1, h0]
                rw [this]
                exact lineText_span (hltr.sub (Nat.le_refl _) e3) (by omega) (by omega)
              · exact lineText_span hltr hlt hb
        refine key _ ?_ ?_ h
        · split
          · split
            · omega
            · omega
          · omega
        · split
          · split
            · omega
            · have := Nat.min_le_left ind ‹Nat›; omega
          · omega

theorem ltr_slice {s : Src} {p indent stop : Nat} {nb : Bool} {term : Termination} {start : Nat}
    (hts : TextSliceLS s (p + indent) (start, stop, nb, term)) (hsp : ∀ j, j < indent → s[p + j]? = some 32) :
    LTR s p stop := by
  obtain ⟨_, hlf, hnlf⟩ := hts
  simp only [] at hlf hnlf
  have hsp' : ∀ j, p ≤ j → j < p + indent → s[j]? = some 32 := fun j h1 h2 => by
    have := hsp (j - p) (by omega); rwa [show p + (j - p) = j by omega] at this
  have h10 : ∀ j, p ≤ j → j + 1 < stop → s[j]? ≠ some 10 := by
    intro j h1 h2
    by_cases hj : j < p + indent
    · rw [hsp' j h1 hj]; decide
    · by_cases ht : term = .lineFeed
      · exact (hlf ht).2.2.1 j (by omega) h2
      · exact hnlf ht j (by omega) (by omega)
  refine ⟨h10, ?_⟩
  intro j h1 h2 ⟨h13, hn⟩
  by_cases h3 : j + 1 + 1 < stop
  · exact h10 (j + 1) (by omega) h3 hn
  · -- `j + 1` is the last byte
    have hj1 : j + 1 = stop - 1 := by omega
    by_cases ht : term = .lineFeed
    · obtain ⟨t1, t2, t3, t4⟩ := hlf ht
      by_cases hj : j < p + indent
      · rw [hsp' j h1 hj] at h13; cases h13
      · have := t4 (by omega)
        rw [show stop - 2 = j by omega] at this
        exact this h13
    · by_cases hj : j + 1 < p + indent
      · rw [hsp' (j + 1) (by omega) hj] at hn; cases hn
      · exact hnlf ht (j + 1) (by omega) (by omega) hn

theorem getElem?_append_new {α : Type} (l : List α) (x : α) : (l ++ [x])[l.length]? = some x := by simp

theorem getElem?_append_old {α : Type} (l : List α) (x y : α) (i : Nat) (h : l[i]? = some y) :
    (l ++ [x])[i]? = some y := by
  have : i < l.length := by
    rcases Nat.lt_or_ge i l.length with h' | h'
    · exact h'
    · rw [List.getElem?_eq_none h'] at h; cases h
  rw [List.getElem?_append_left this]; exact h

theorem st2Of_ls {s : Src} (st : PatState) (p indent start stop : Nat) (nb : Bool) (term : Termination) (st2 : PatState)
    (hinv : StInv s st) (hts : TextSliceLS s (p + indent) (start, stop, nb, term))
    (hsp : ∀ j, j < indent → s[p + j]? = some 32)
    (h : st2Of s st p indent start stop nb term = some st2) : StInv s st2 := by
  have hstart : start = p + indent := hts.1
  unfold st2Of at h
  simp only [] at h
  split at h
  · split at h
    · split at h
      · rename_i e sv he hsv
        simp only [Option.some.injEq] at h
        subst h
        have hpe : PhLS s e := by
          unfold elOf at he
          split at he
          · simp only [Option.map_eq_some_iff] at he
            obtain ⟨a, ha, rfl⟩ := he
            simp only [usub] at ha
            split at ha
            · simp at ha; subst ha
              exact ⟨fun j h1 h2 => by omega, fun j h1 h2 => by omega⟩
            · cases ha
          · simp at he; subst he
            exact ltr_slice hts hsp
        constructor
        · intro ph hph
          simp only [List.mem_append, List.mem_singleton] at hph
          rcases hph with hph | rfl
          · exact hinv.els ph hph
          · exact hpe
        · intro i hi
          simp only [] at hi ⊢
          split at hi
          · rename_i hsvt
            simp at hi; subst hi
            refine ⟨e, getElem?_append_new _ _, ?_⟩
            -- `sv = true` forces the ordinary element and a surviving slice
            unfold survivesOf at hsv
            split at hsv
            · rename_i hnb
              simp only [Option.map_eq_some_iff] at hsv
              obtain ⟨sp, hsl, hsp'⟩ := hsv
              obtain ⟨rfl, hvs⟩ := slice_eq_some hsl
              unfold elOf at he
              simp only [hnb, Bool.not_true, Bool.and_false, Bool.false_and, Bool.false_eq_true, if_false,
                Option.some.injEq] at he
              subst he
              subst hstart
              refine ⟨hvs.1, ?_⟩
              rw [hsvt] at hsp'
              simpa using hsp'
            · simp at hsv; rw [hsv] at hsvt; cases hsvt
          · obtain ⟨ph, h1, h2⟩ := hinv.lnb i hi
            exact ⟨ph, getElem?_append_old _ _ _ _ h1, h2⟩
      · cases h
    · simp only [Option.some.injEq] at h; subst h
      exact ⟨hinv.els, hinv.lnb⟩
  · simp only [Option.some.injEq] at h; subst h; exact hinv

/-! ## partial correctness of the eight mutually recursive functions -/

/-- whenever the result is `ok`, the value satisfies `Q` -/
def Post {α : Type} (r : R α) (Q : α → Prop) : Prop := ∀ a q, r = .ok a q → Q a

structure Specs2 (s : Src) (n : Nat) : Prop where
  patternLoop : ∀ st p, StInv s st → Post (getPatternLoop s n st p) (StInv s)
  pattern : ∀ p, Post (getPattern s n p) (fun o => ∀ els, o = some els → LSP s els)
  placeable : ∀ p, Post (getPlaceable s n p) (LSE s)
  expression : ∀ p, Post (getExpression s n p) (LSE s)
  inline : ∀ ol p, Post (getInline s n ol p) (LSI s)
  callArguments : ∀ p, Post (getCallArguments s n p)
    (fun o => ∀ pos named, o = some (pos, named) → LSInl s pos ∧ LSNamed s named)
  callArgsLoop : ∀ pos named p, LSInl s pos → LSNamed s named →
    Post (getCallArgsLoop s n pos named p) (fun r => LSInl s r.1 ∧ LSNamed s r.2)
  variants : ∀ hd acc p, LSVariants s acc → Post (getVariants s n hd acc p) (LSVariants s)

theorem lsInl_append (xs : List (Inline Bytes)) (x : Inline Bytes) : lsInl (xs ++ [x]) ↔ lsInl xs ∧ lsInline x := by
  induction xs with
  | nil => simp [lsInl]
  | cons y ys ih => simp [lsInl, ih, and_assoc]

theorem lsNamed_append (xs : List (Bytes × Inline Bytes)) (n : Bytes) (x : Inline Bytes) :
    lsNamed (xs ++ [(n, x)]) ↔ lsNamed xs ∧ lsInline x := by
  induction xs with
  | nil => simp [lsNamed]
  | cons y ys ih => obtain ⟨m, v⟩ := y; simp [lsNamed, ih, and_assoc]

theorem lsVariants_append (xs : List (Variant Bytes)) (x : Variant Bytes) :
    lsVariants (xs ++ [x]) ↔ lsVariants xs ∧ lsVariant x := by
  induction xs with
  | nil => simp [lsVariants]
  | cons y ys ih => simp [lsVariants, ih, and_assoc]

theorem mapVariants_append (f : Span → Bytes) (a b : List (Variant Span)) :
    mapVariants f (a ++ b) = mapVariants f a ++ mapVariants f b := by
  induction a with
  | nil => rfl
  | cons x xs ih => simp [mapVariants, ih]

theorem pattern_step2 {s : Src} {n : Nat} (IH : Specs2 s n) (p : Nat) :
    Post (getPattern s (n + 1) p) (fun o => ∀ els, o = some els → LSP s els) := by
  intro a q h els hels
  subst hels
  simp only [getPattern] at h
  split at h <;> try (cases h; done)
  rename_i st q' hloop
  have hinv := IH.patternLoop _ _ ⟨by simp, by simp⟩ st q' hloop
  split at h
  · rename_i lnb hlnb
    split at h <;> try (cases h; done)
    rename_i els' hfin
    cases h
    obtain ⟨ph, h1, h2⟩ := hinv.lnb lnb hlnb
    exact finishElements_ls s _ lnb _ 0 _ hinv.els (fun k ph' hk hi => by
      have : k = lnb := by omega
      subst this; rw [h1] at hk; cases hk; exact h2) hfin
  · cases h

theorem placeable_step2 {s : Src} {n : Nat} (IH : Specs2 s n) (p : Nat) :
    Post (getPlaceable s (n + 1) p) (LSE s) := by
  intro a q h
  simp only [getPlaceable] at h
  split at h <;> try (cases h; done)
  rename_i exp q' hex
  have := IH.expression _ exp q' hex
  split at h <;> try (cases h; done)
  split at h <;> try (cases h; done)
  cases h; exact this

theorem expression_step2 {s : Src} {n : Nat} (IH : Specs2 s n) (p : Nat) :
    Post (getExpression s (n + 1) p) (LSE s) := by
  intro a q h
  simp only [getExpression] at h
  split at h <;> try (cases h; done)
  rename_i exp q' hin
  have hi := IH.inline _ _ exp q' hin
  split at h
  · split at h <;> try (cases h; done)
    cases h
    simpa [LSE, Expr.mapS, lsExpr] using hi
  · split at h <;> try (cases h; done)
    split at h <;> try (cases h; done)
    split at h <;> try (cases h; done)
    rename_i vs q5 hvs
    have hv := IH.variants false [] _ (by simp [LSVariants, mapVariants, lsVariants]) vs q5 hvs
    cases h
    simp only [LSE, Expr.mapS, lsExpr]
    exact ⟨hi, hv⟩

theorem callArguments_step2 {s : Src} {n : Nat} (IH : Specs2 s n) (p : Nat) :
    Post (getCallArguments s (n + 1) p)
      (fun o => ∀ pos named, o = some (pos, named) → LSInl s pos ∧ LSNamed s named) := by
  intro a q h pos named ha
  subst ha
  simp only [getCallArguments] at h
  split at h
  · cases h
  · split at h <;> try (cases h; done)
    rename_i r q' hloop
    split at h <;> try (cases h; done)
    cases h
    exact IH.callArgsLoop [] [] _ (by simp [LSInl, mapInl, lsInl]) (by simp [LSNamed, mapNamed, lsNamed]) _ q' hloop

theorem inline_step2 {s : Src} {n : Nat} (IH : Specs2 s n) (ol : Bool) (p : Nat) :
    Post (getInline s (n + 1) ol p) (LSI s) := by
  intro a q h
  simp only [getInline] at h
  split at h
  · split at h <;> cases h
  · split at h
    · -- string
      split at h <;> try (cases h; done)
      split at h <;> try (cases h; done)
      split at h <;> try (cases h; done)
      split at h <;> try (cases h; done)
      cases h; simp [LSI, Inline.mapS, lsInline]
    · split at h
      · split at h <;> try (cases h; done)
        cases h; simp [LSI, Inline.mapS, lsInline]
      · split at h
        · split at h
          · -- term
            split at h <;> try (cases h; done)
            split at h <;> try (cases h; done)
            split at h <;> try (cases h; done)
            rename_i args q2 hca
            have := IH.callArguments _ args q2 hca
            cases h
            cases args with
            | none => simp [LSI, Inline.mapS, lsInline]
            | some pn =>
              obtain ⟨pos, named⟩ := pn
              simpa [LSI, Inline.mapS, lsInline] using this pos named rfl
          · split at h <;> try (cases h; done)
            cases h; simp [LSI, Inline.mapS, lsInline]
        · split at h
          · split at h <;> try (cases h; done)
            cases h; simp [LSI, Inline.mapS, lsInline]
          · split at h
            · split at h <;> try (cases h; done)
              split at h <;> try (cases h; done)
              · rename_i pos named q1 hca
                have := IH.callArguments _ _ q1 hca pos named rfl
                split at h <;> try (cases h; done)
                cases h
                simpa [LSI, Inline.mapS, lsInline] using this
              · split at h <;> try (cases h; done)
                cases h; simp [LSI, Inline.mapS, lsInline]
            · split at h
              · split at h <;> try (cases h; done)
                rename_i e q1 hpl
                have := IH.placeable _ e q1 hpl
                cases h
                simpa [LSI, Inline.mapS, lsInline] using this
              · split at h <;> cases h

theorem mapInl_snoc (f : Span → Bytes) (a : List (Inline Span)) (x : Inline Span) :
    mapInl f (a ++ [x]) = mapInl f a ++ [x.mapS f] := by
  induction a with
  | nil => rfl
  | cons y ys ih => simp [mapInl, ih]

theorem mapNamed_snoc (f : Span → Bytes) (a : List (Span × Inline Span)) (n : Span) (x : Inline Span) :
    mapNamed f (a ++ [(n, x)]) = mapNamed f a ++ [(f n, x.mapS f)] := by
  induction a with
  | nil => rfl
  | cons y ys ih => obtain ⟨m, v⟩ := y; simp [mapNamed, ih]

theorem LSInl_snoc {s : Src} {pos : List (Inline Span)} {e : Inline Span} (h1 : LSInl s pos) (h2 : LSI s e) :
    LSInl s (pos ++ [e]) := by
  simp only [LSInl, mapInl_snoc]
  exact (lsInl_append _ _).mpr ⟨h1, h2⟩

theorem LSNamed_snoc {s : Src} {named : List (Span × Inline Span)} {n : Span} {e : Inline Span}
    (h1 : LSNamed s named) (h2 : LSI s e) : LSNamed s (named ++ [(n, e)]) := by
  simp only [LSNamed, mapNamed_snoc]
  exact (lsNamed_append _ _ _).mpr ⟨h1, h2⟩

theorem callArgsLoop_step2 {s : Src} {n : Nat} (IH : Specs2 s n) (pos : List (Inline Span))
    (named : List (Span × Inline Span)) (p : Nat) (hpos : LSInl s pos) (hnamed : LSNamed s named) :
    Post (getCallArgsLoop s (n + 1) pos named p) (fun r => LSInl s r.1 ∧ LSNamed s r.2) := by
  intro a q h
  simp only [getCallArgsLoop] at h
  split at h
  · split at h
    · cases h; exact ⟨hpos, hnamed⟩
    · split at h <;> try (cases h; done)
      rename_i expr q1 hin
      have he := IH.inline _ _ expr q1 hin
      split at h
      · -- `.msg id none`
        split at h
        · split at h <;> try (cases h; done)
          split at h <;> try (cases h; done)
          rename_i val q3 hval
          have hv := IH.inline _ _ val q3 hval
          exact IH.callArgsLoop _ _ _ hpos (LSNamed_snoc hnamed hv) a q h
        · split at h <;> try (cases h; done)
          exact IH.callArgsLoop _ _ _ (LSInl_snoc hpos he) hnamed a q h
      · split at h <;> try (cases h; done)
        exact IH.callArgsLoop _ _ _ (LSInl_snoc hpos he) hnamed a q h
  · cases h; exact ⟨hpos, hnamed⟩

theorem variants_step2 {s : Src} {n : Nat} (IH : Specs2 s n) (hd : Bool) (acc : List (Variant Span)) (p : Nat)
    (hacc : LSVariants s acc) : Post (getVariants s (n + 1) hd acc p) (LSVariants s) := by
  intro a q h
  simp only [getVariants] at h
  split at h <;> try (cases h; done)
  split at h
  · split at h <;> try (cases h; done)
    split at h <;> try (cases h; done)
    cases h; exact hacc
  · split at h <;> try (cases h; done)
    split at h <;> try (cases h; done)
    split at h <;> try (cases h; done)
    rename_i value q3 hpat
    have hp := IH.pattern _ _ q3 hpat value rfl
    refine IH.variants _ _ _ ?_ a q h
    simp only [LSVariants, mapVariants_append, mapVariants]
    exact (lsVariants_append _ _).mpr ⟨hacc, by simpa [Variant.mapS, lsVariant] using hp⟩

theorem patternLoop_step2 {s : Src} {n : Nat} (IH : Specs2 s n) (st : PatState) (p : Nat) (hinv : StInv s st) :
    Post (getPatternLoop s (n + 1) st p) (StInv s) := by
  intro a q h
  simp only [getPatternLoop] at h
  split at h
  · split at h
    · -- a placeable
      split at h <;> try (cases h; done)
      rename_i e q1 hpl
      have he := IH.placeable _ e q1 hpl
      refine IH.patternLoop _ _ ?_ a q h
      constructor
      · intro ph hph
        simp only [List.mem_append, List.mem_singleton] at hph
        rcases hph with hph | rfl
        · refine hinv.els ph ?_
          revert hph
          split <;> exact id
        · exact he
      · intro i hi
        simp only [Option.some.injEq] at hi
        subst hi
        exact ⟨.placeable e, getElem?_append_new _ _, trivial⟩
    · -- text
      split at h
      · cases h; exact hinv
      · rename_i indent p1 hpre
        have hfacts : p + indent = p1 ∧ (∀ j, j < indent → s[p + j]? = some 32) := by
          have hA := skipBlankInline_after s p
          have hsp := skipBlankInline_spaces s p
          have hle := hA.le
          split at hpre
          · split at hpre
            · have hsp' : ∀ j, j < skipBlankInline s p - p → s[p + j]? = some 32 :=
                fun j hj => hsp (p + j) (by omega) (by omega)
              split at hpre <;> split at hpre <;> simp at hpre <;> obtain ⟨rfl, rfl⟩ := hpre <;>
                exact ⟨by omega, hsp'⟩
            · simp at hpre
          · simp at hpre
            obtain ⟨rfl, rfl⟩ := hpre
            exact ⟨rfl, fun j hj => by omega⟩
        clear hpre
        obtain ⟨f2, f4⟩ := hfacts
        split at h <;> try (cases h; done)
        rename_i start stop nb term q1 hts
        have hls := getTextSlice_ls s p1 _ q1 hts
        rw [← f2] at hls
        split at h
        · rename_i st2 hst2
          have e2 : st2Of s st p indent start stop nb term = some st2 := hst2
          have hinv2 := st2Of_ls st p indent start stop nb term st2 hinv hls f4 e2
          refine IH.patternLoop _ _ ?_ a q h
          exact ⟨hinv2.els, hinv2.lnb⟩
        · cases h
  · cases h; exact hinv

theorem specs2_all (s : Src) (n : Nat) : Specs2 s n := by
  induction n with
  | zero =>
    refine ⟨?_, ?_, ?_, ?_, ?_, ?_, ?_, ?_⟩ <;> intros <;> intro a q h
    · simp [getPatternLoop] at h
    · simp [getPattern] at h
    · simp [getPlaceable] at h
    · simp [getExpression] at h
    · simp [getInline] at h
    · simp [getCallArguments] at h
    · simp [getCallArgsLoop] at h
    · simp [getVariants] at h
  | succ n ih =>
    exact {
      patternLoop := fun st p h1 => patternLoop_step2 ih st p h1
      pattern := fun p => pattern_step2 ih p
      placeable := fun p => placeable_step2 ih p
      expression := fun p => expression_step2 ih p
      inline := fun ol p => inline_step2 ih ol p
      callArguments := fun p => callArguments_step2 ih p
      callArgsLoop := fun pos named p h1 h2 => callArgsLoop_step2 ih pos named p h1 h2
      variants := fun hd acc p h1 => variants_step2 ih hd acc p h1 }

/-- every pattern `get_pattern` returns is line-split -/
theorem getPattern_ls (s : Src) (fuel p : Nat) (els : List (PatElem Span)) (q : Nat)
    (h : getPattern s fuel p = .ok (some els) q) : LSP s els :=
  (specs2_all s fuel).pattern p _ q h els rfl

/-! ## entries and the entry loop -/

def LSAttrs (s : Src) (as : List (Attribute Span)) : Prop := ∀ a ∈ as, LSP s a.value

abbrev LSEntry (s : Src) (e : Entry Span) : Prop := lsEntry (e.mapS (spanBytes s))

theorem getAttribute_ls (s : Src) (fuel p : Nat) : Post (getAttribute s fuel p) (fun a => LSP s a.value) := by
  intro a q h
  simp only [getAttribute] at h
  split at h <;> try (cases h; done)
  split at h <;> try (cases h; done)
  split at h <;> try (cases h; done)
  rename_i pat q3 hpat
  have := getPattern_ls s fuel _ pat q3 hpat
  cases h
  exact this

theorem getAttributesGo_ls (s : Src) (fuel : Nat) : ∀ (n : Nat) (acc : List (Attribute Span)) (p : Nat),
    LSAttrs s acc → Post (getAttributesGo s fuel n acc p) (LSAttrs s) := by
  intro n
  induction n with
  | zero => intro acc p _ a q h; simp [getAttributesGo] at h
  | succ n ih =>
    intro acc p hacc a q h
    simp only [getAttributesGo] at h
    split at h
    · cases h; exact hacc
    · split at h
      · rename_i at' q1 hat
        have := getAttribute_ls s fuel _ at' q1 hat
        refine ih _ _ ?_ a q h
        intro x hx
        simp only [List.mem_append, List.mem_singleton] at hx
        rcases hx with hx | rfl
        · exact hacc x hx
        · exact this
      · cases h; exact hacc
      · cases h
      · cases h

theorem lsEntry_message {s : Src} (m : Message Span) (h1 : ∀ v, m.value = some v → LSP s v)
    (h2 : LSAttrs s m.attributes) : LSEntry s (.message m) := by
  simp only [LSEntry, Entry.mapS, lsEntry]
  constructor
  · intro v hv
    cases hm : m.value with
    | none => simp [hm] at hv
    | some v' => simp [hm] at hv; subst hv; exact h1 v' hm
  · intro a ha
    simp only [List.mem_map] at ha
    obtain ⟨a', ha', rfl⟩ := ha
    exact h2 a' ha'

theorem lsEntry_term {s : Src} (t : Term Span) (h1 : LSP s t.value) (h2 : LSAttrs s t.attributes) :
    LSEntry s (.term t) := by
  simp only [LSEntry, Entry.mapS, lsEntry]
  refine ⟨h1, ?_⟩
  intro a ha
  simp only [List.mem_map] at ha
  obtain ⟨a', ha', rfl⟩ := ha
  exact h2 a' ha'

theorem getEntry_ls (s : Src) (fuel p : Nat) : Post (getEntry s fuel p) (LSEntry s) := by
  intro a q h
  simp only [getEntry] at h
  split at h
  · -- comment
    split at h <;> try (cases h; done)
    split at h
    · cases h; simp [LSEntry, Entry.mapS, lsEntry]
    · split at h
      · cases h; simp [LSEntry, Entry.mapS, lsEntry]
      · split at h
        · cases h; simp [LSEntry, Entry.mapS, lsEntry]
        · cases h
  · -- term
    split at h <;> try (cases h; done)
    rename_i t q1 ht
    cases h
    simp only [getTerm] at ht
    split at ht <;> try (cases ht; done)
    split at ht <;> try (cases ht; done)
    split at ht <;> try (cases ht; done)
    split at ht <;> try (cases ht; done)
    rename_i value q3 hpat
    split at ht <;> try (cases ht; done)
    rename_i attrs q5 hattrs
    split at ht <;> try (cases ht; done)
    rename_i v
    have h1 := getPattern_ls s fuel _ v q3 hpat
    have h2 := getAttributesGo_ls s fuel _ [] _ (by intro x hx; simp at hx) attrs q5 hattrs
    cases ht
    exact lsEntry_term _ h1 h2
  · -- message
    split at h <;> try (cases h; done)
    rename_i m q1 hm
    cases h
    simp only [getMessage] at hm
    split at hm <;> try (cases hm; done)
    split at hm <;> try (cases hm; done)
    split at hm <;> try (cases hm; done)
    rename_i pattern q3 hpat
    split at hm <;> try (cases hm; done)
    rename_i attrs q5 hattrs
    split at hm <;> try (cases hm; done)
    have h1 : ∀ v, pattern = some v → LSP s v := fun v hv => by
      subst hv; exact getPattern_ls s fuel _ v q3 hpat
    have h2 := getAttributesGo_ls s fuel _ [] _ (by intro x hx; simp at hx) attrs q5 hattrs
    cases hm
    exact lsEntry_message _ h1 h2

theorem lsEntry_setComment_msg {s : Src} (m : Message Span) (c : List Span) (h : LSEntry s (.message m)) :
    LSEntry s (.message { m with comment := some c }) := by
  simpa [LSEntry, Entry.mapS, lsEntry] using h

theorem lsEntry_setComment_term {s : Src} (t : Term Span) (c : List Span) (h : LSEntry s (.term t)) :
    LSEntry s (.term { t with comment := some c }) := by
  simpa [LSEntry, Entry.mapS, lsEntry] using h

theorem mem_snoc {α : Type} {l : List α} {x y : α} (h : y ∈ l ++ [x]) : y ∈ l ∨ y = x := by
  simpa using h

theorem parseLoop_ls (s : Src) (fuel : Nat) : ∀ (n : Nat) (body : List (Entry Span)) (errors : List PErr)
    (lc : Option (List Span)) (cnt p : Nat) (t : List (Entry Span)) (errs : List PErr),
    (∀ e ∈ body, LSEntry s e) → parseLoop s fuel n body errors lc cnt p = .done (t, errs) →
    ∀ e ∈ t, LSEntry s e := by
  intro n
  induction n with
  | zero => intro body errors lc cnt p t errs _ h; simp [parseLoop] at h
  | succ n ih =>
    intro body errors lc cnt p t errs hbody h
    simp only [parseLoop] at h
    have hc : ∀ c : List Span, LSEntry s (.comment c) := fun c => by simp [LSEntry, Entry.mapS, lsEntry]
    have hsn : ∀ (b : List (Entry Span)) (x : Entry Span), (∀ e ∈ b, LSEntry s e) → LSEntry s x →
        ∀ e ∈ b ++ [x], LSEntry s e := by
      intro b x hb hx e he
      rcases mem_snoc he with he | rfl
      · exact hb e he
      · exact hx
    split at h
    · have hr := getEntry_ls s fuel p
      have hjunk : ∀ content : Span, LSEntry s (.junk content) := fun c => by simp [LSEntry, Entry.mapS, lsEntry]
      cases hge : getEntry s fuel p with
      | panic m => cases lc <;> simp [hge] at h
      | fuel => cases lc <;> simp [hge] at h
      | err er q =>
        cases lc with
        | none =>
          simp only [hge] at h
          split at h
          · cases h
          · split at h
            · exact ih _ _ _ _ _ _ _ (hsn _ _ hbody (hjunk _)) h
            · cases h
        | some c =>
          simp only [hge] at h
          split at h
          · cases h
          · split at h
            · exact ih _ _ _ _ _ _ _ (hsn _ _ (hsn _ _ hbody (hc c)) (hjunk _)) h
            · cases h
      | ok e q =>
        have he := hr e q hge
        cases lc with
        | none =>
          simp only [hge] at h
          cases e with
          | comment c' => exact ih _ _ _ _ _ _ _ hbody h
          | message m => exact ih _ _ _ _ _ _ _ (hsn _ _ hbody he) h
          | term t' => exact ih _ _ _ _ _ _ _ (hsn _ _ hbody he) h
          | groupComment c' => exact ih _ _ _ _ _ _ _ (hsn _ _ hbody he) h
          | resourceComment c' => exact ih _ _ _ _ _ _ _ (hsn _ _ hbody he) h
          | junk c' => exact ih _ _ _ _ _ _ _ (hsn _ _ hbody he) h
        | some c =>
          simp only [hge] at h
          cases e with
          | comment c' => exact ih _ _ _ _ _ _ _ (hsn _ _ hbody (hc c)) h
          | message m =>
            by_cases hcnt : cnt < 2
            · simp only [hcnt, if_true] at h
              exact ih _ _ _ _ _ _ _ (hsn _ _ hbody (lsEntry_setComment_msg m c he)) h
            · simp only [hcnt, if_false] at h
              exact ih _ _ _ _ _ _ _ (hsn _ _ (hsn _ _ hbody (hc c)) he) h
          | term t' =>
            by_cases hcnt : cnt < 2
            · simp only [hcnt, if_true] at h
              exact ih _ _ _ _ _ _ _ (hsn _ _ hbody (lsEntry_setComment_term t' c he)) h
            · simp only [hcnt, if_false] at h
              exact ih _ _ _ _ _ _ _ (hsn _ _ (hsn _ _ hbody (hc c)) he) h
          | groupComment c' => exact ih _ _ _ _ _ _ _ (hsn _ _ (hsn _ _ hbody (hc c)) he) h
          | resourceComment c' => exact ih _ _ _ _ _ _ _ (hsn _ _ (hsn _ _ hbody (hc c)) he) h
          | junk c' => exact ih _ _ _ _ _ _ _ (hsn _ _ (hsn _ _ hbody (hc c)) he) h
    · split at h
      · cases h; exact hsn _ _ hbody (hc _)
      · cases h; exact hbody

/-- **The parser produces line-split trees.**  For every byte source: every text element of every
pattern (message/term values, attribute values, variant values, at any nesting depth) of the tree
returned by `parse` is non-empty, contains `\n` only as its last byte, and contains no `\r\n`. -/
theorem parse_lineSplit (s : Src) (t : Resource Span) (errs : List PErr) (h : parse s = .done (t, errs)) :
    LineSplit (resolve s t) := by
  unfold parse at h
  intro e he
  simp only [resolve, List.mem_map] at he
  obtain ⟨e', he', rfl⟩ := he
  exact parseLoop_ls s _ _ [] [] none 0 _ t errs (by simp) h e' he'

end FluentProofs.Ser
