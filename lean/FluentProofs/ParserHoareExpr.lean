import FluentProofs.ParserHoareAst
namespace FluentProofs.Parser
open FluentModel.Syntax

abbrev VI (s : Src) := allInline (VSpan s)
abbrev VE (s : Src) := allExpr (VSpan s)
abbrev VP (s : Src) := allPat (VSpan s)

/-- the joint specification of the eight mutually recursive functions at fuel `n` -/
structure Specs (s : Src) (n : Nat) : Prop where
  patternLoop : ∀ st p, p ≤ s.size → Bnd s p → (∀ ph ∈ st.elements, PhOk s ph) → 4 * (s.size - p) + 1 ≤ n →
    Good s p (getPatternLoop s n st p) (fun st' q => Bnd s q ∧ ∀ ph ∈ st'.elements, PhOk s ph)
  pattern : ∀ p, p ≤ s.size → Bnd s p → 4 * (s.size - p) + 2 ≤ n →
    Good s p (getPattern s n p) (fun o q => Bnd s q ∧ ∀ els, o = some els → VP s els)
  placeable : ∀ p, p ≤ s.size → 4 * (s.size - p) + 3 ≤ n →
    Good s p (getPlaceable s n p) (fun e q => Bnd s q ∧ VE s e)
  expression : ∀ p, p ≤ s.size → 4 * (s.size - p) + 2 ≤ n →
    Good s p (getExpression s n p) (fun e _ => VE s e)
  inline : ∀ ol p, p ≤ s.size → 4 * (s.size - p) + 1 ≤ n →
    Good s p (getInline s n ol p) (fun e q => p < q ∧ VI s e)
  callArguments : ∀ p, p ≤ s.size → 4 * (s.size - p) + 1 ≤ n →
    Good s p (getCallArguments s n p)
      (fun o _ => ∀ pos named, o = some (pos, named) → allInl (VSpan s) pos ∧ allNamed (VSpan s) named)
  callArgsLoop : ∀ pos named p, p ≤ s.size → allInl (VSpan s) pos → allNamed (VSpan s) named →
    4 * (s.size - p) + 2 ≤ n →
    Good s p (getCallArgsLoop s n pos named p) (fun r _ => allInl (VSpan s) r.1 ∧ allNamed (VSpan s) r.2)
  variants : ∀ hd acc p, p ≤ s.size → allVariants (VSpan s) acc → 4 * (s.size - p) + 1 ≤ n →
    Good s p (getVariants s n hd acc p) (fun vs _ => allVariants (VSpan s) vs)

theorem placeable_step {s : Src} (hs : AsciiThenBoundary s) {n : Nat} (IH : Specs s n) (p : Nat) (hp : p ≤ s.size)
    (hf : 4 * (s.size - p) + 3 ≤ n + 1) :
    Good s p (getPlaceable s (n + 1) p) (fun e q => Bnd s q ∧ VE s e) := by
  simp only [getPlaceable]
  have hA := skipBlank_after s p
  have h1 := hA.le
  have h2 := hA.le_size hp
  rcases (IH.expression (skipBlank s p) h2 (by omega)).cases with ⟨e, q, hr, h3, h4, h5⟩ | ⟨e, q, hr, h3, h4⟩ <;> simp only [hr]
  · have hA2 := skipBlankInline_after s q
    have h6 := hA2.le
    have h7 := hA2.le_size h4
    rcases (expectByte_good s (skipBlankInline s q) 125 h7).cases with ⟨_, q2, hr2, h8, h9, h10, h11⟩ | ⟨e2, q2, hr2, h8, h9⟩ <;>
      simp only [hr2]
    · split
      · simp; omega
      · subst h10
        exact (good_ok _ _ _ _ _).mpr ⟨by omega, h9, bnd_succ hs h11 (by decide), h5⟩
    · simp; omega
  · simp; omega

theorem pattern_step {s : Src} (hs : AsciiThenBoundary s) {n : Nat} (IH : Specs s n) (p : Nat) (hp : p ≤ s.size)
    (hb : Bnd s p) (hf : 4 * (s.size - p) + 2 ≤ n + 1) :
    Good s p (getPattern s (n + 1) p) (fun o q => Bnd s q ∧ ∀ els, o = some els → VP s els) := by
  have key : ∀ role p2, After s p p2 →
      Good s p (match getPatternLoop s n ⟨[], none, none, role, none⟩ p2 with
        | .ok st q =>
          (match st.lastNonBlank with
           | some lnb =>
             (match finishElements s st.keptCommonIndent lnb 0 st.elements with
              | some els => .ok (some els) q
              | none => .panic "get_pattern slice")
           | none => .ok none q)
        | .err e q => .err e q
        | .panic m => .panic m
        | .fuel => .fuel) (fun o q => Bnd s q ∧ ∀ els, o = some els → VP s els) := by
    intro role p2 hA
    have h1 := hA.le
    have h2 := hA.le_size hp
    rcases (IH.patternLoop ⟨[], none, none, role, none⟩ p2 h2 (hA.bnd hs hb) (by simp) (by omega)).cases with
      ⟨st, q, hr, h3, h4, h5, h6⟩ | ⟨e, q, hr, h3, h4⟩ <;> simp only [hr]
    · split
      · rename_i lnb _
        obtain ⟨r, hr', hv⟩ := finishElements_ok hs st.keptCommonIndent lnb 0 st.elements h6
        simp only [hr']
        refine (good_ok _ _ _ _ _).mpr ⟨by omega, h4, h5, ?_⟩
        intro els he; simp at he; subst he; exact hv
      · exact (good_ok _ _ _ _ _).mpr ⟨by omega, h4, h5, by simp⟩
    · simp; omega
  simp only [getPattern]
  have hA1 := skipBlankInline_after s p
  cases hE : skipEol s (skipBlankInline s p) with
  | none => exact key _ _ hA1
  | some q => exact key _ _ ((hA1.trans (skipEol_after hE)).trans (skipBlankBlock_after s q))

theorem callArguments_step {s : Src} {n : Nat} (IH : Specs s n) (p : Nat) (hp : p ≤ s.size)
    (hf : 4 * (s.size - p) + 1 ≤ n + 1) :
    Good s p (getCallArguments s (n + 1) p)
      (fun o _ => ∀ pos named, o = some (pos, named) → allInl (VSpan s) pos ∧ allNamed (VSpan s) named) := by
  simp only [getCallArguments]
  have hA := skipBlank_after s p
  have h1 := hA.le
  have h2 := hA.le_size hp
  rcases takeByteIf_cases s (skipBlank s p) 40 with ⟨h, h'⟩ | ⟨h, _⟩ <;> rw [h] <;> simp only []
  · have hlt := get_lt h'
    have hA2 := skipBlank_after s (skipBlank s p + 1)
    have h3 := hA2.le
    have h4 := hA2.le_size (by omega)
    simp only [Bool.not_true, Bool.false_eq_true, if_false]
    rcases (IH.callArgsLoop [] [] _ h4 trivial trivial (by omega)).cases with
      ⟨⟨pos, named⟩, q, hr, h5, h6, h7⟩ | ⟨e, q, hr, h5, h6⟩ <;> simp only [hr]
    · rcases (expectByte_good s q 41 h6).cases with ⟨_, q2, hr2, h8, h9, h10, h11⟩ | ⟨e2, q2, hr2, h8, h9⟩ <;>
        simp only [hr2]
      · refine (good_ok _ _ _ _ _).mpr ⟨by omega, h9, ?_⟩
        intro pos' named' he
        simp at he; obtain ⟨rfl, rfl⟩ := he; exact h7
      · simp; omega
    · simp; omega
  · simp; omega

theorem expression_step {s : Src} {n : Nat} (IH : Specs s n) (p : Nat) (hp : p ≤ s.size)
    (hf : 4 * (s.size - p) + 2 ≤ n + 1) :
    Good s p (getExpression s (n + 1) p) (fun e _ => VE s e) := by
  simp only [getExpression]
  rcases (IH.inline false p hp (by omega)).cases with ⟨exp, q, hr, h1, h2, h3, h4⟩ | ⟨e, q, hr, h1, h2⟩ <;> simp only [hr]
  · have hA := skipBlank_after s q
    have h5 := hA.le
    have h6 := hA.le_size h2
    split
    · split
      · simp; omega
      · exact (good_ok _ _ _ _ _).mpr ⟨by omega, h6, by simpa [VE, allExpr] using h4⟩
    · rename_i hc
      simp only [Bool.or_eq_true, Bool.not_eq_eq_eq_not, Bool.not_true, not_or, Bool.not_eq_false] at hc
      have h62 : s[skipBlank s q + 1]? = some 62 := by simpa using hc.2
      have hlt := get_lt h62
      split
      · simp; omega
      · have hA2 := skipBlankInline_after s (skipBlank s q + 2)
        have h7 := hA2.le
        have h8 := hA2.le_size (by omega)
        split
        · simp; omega
        · rename_i q3 hq3
          have hA3 := (skipEol_after hq3).trans (skipBlank_after s q3)
          have h9 := hA3.le
          have h10 := hA3.le_size h8
          rcases (IH.variants false [] _ h10 trivial (by omega)).cases with ⟨vs, q5, hr5, h11, h12, h13⟩ | ⟨e, q5, hr5, h11, h12⟩ <;>
            simp only [hr5]
          · exact (good_ok _ _ _ _ _).mpr ⟨by omega, h12, by simp only [VE, allExpr]; exact ⟨h4, h13⟩⟩
          · simp; omega
  · simp; omega

theorem isNumberStart_asc {s : Src} {p : Nat} (h : isNumberStart s p = true) : Asc s p := by
  unfold isNumberStart at h
  split at h
  · rename_i b hb
    refine ⟨b, hb, ?_⟩
    simp only [Bool.or_eq_true, beq_iff_eq] at h
    rcases h with h | h
    · exact isDigit_lt b h
    · subst h; decide
  · simp at h

/-- `get_variant_key` (inlined in the model's `getVariants`) -/
def variantKey (s : Src) (p : Nat) : R (VKey Span) :=
  if isNumberStart s p then
    match getNumberLiteral s p with
    | .ok sp q => R.ok (VKey.num sp) q
    | .err e q => .err e q
    | .panic m => .panic m
    | .fuel => .fuel
  else
    match getIdentifier s p with
    | .ok sp q => R.ok (VKey.ident sp) q
    | .err e q => .err e q
    | .panic m => .panic m
    | .fuel => .fuel

theorem variantKey_good {s : Src} (hs : AsciiThenBoundary s) (p : Nat) (hp : p ≤ s.size) :
    Good s p (variantKey s p) (fun k q => p < q ∧ allVKey (VSpan s) k) := by
  unfold variantKey
  split
  · rename_i h
    rcases (getNumberLiteral_good hs p (isNumberStart_asc h)).cases with ⟨sp, q, hr, h1, h2, h3, h4, h5⟩ | ⟨e, q, hr, h1, h2⟩ <;>
      simp only [hr]
    · exact (good_ok _ _ _ _ _).mpr ⟨h1, h2, h3, h5⟩
    · simp; omega
  · rcases (getIdentifier_good hs p hp).cases with ⟨sp, q, hr, h1, h2, h3, h4, h5, _⟩ | ⟨e, q, hr, h1, h2⟩ <;>
      simp only [hr]
    · exact (good_ok _ _ _ _ _).mpr ⟨h1, h2, h3, h5⟩
    · simp; omega

theorem variants_step {s : Src} (hs : AsciiThenBoundary s) {n : Nat} (IH : Specs s n) (hd : Bool)
    (acc : List (Variant Span)) (p : Nat) (hp : p ≤ s.size)
    (hacc : allVariants (VSpan s) acc) (hf : 4 * (s.size - p) + 1 ≤ n + 1) :
    Good s p (getVariants s (n + 1) hd acc p) (fun vs _ => allVariants (VSpan s) vs) := by
  simp only [getVariants]
  have hA1 : After s p (takeByteIf s p 42).1 := by
    rcases takeByteIf_cases s p 42 with ⟨h, h'⟩ | ⟨h, _⟩ <;> rw [h]
    · exact After.step ⟨42, h', by decide⟩
    · exact After.refl _ _
  generalize takeByteIf s p 42 = t at hA1 ⊢
  obtain ⟨p1, dflt⟩ := t
  simp only [] at hA1 ⊢
  have h1 := hA1.le
  have h2 := hA1.le_size hp
  split
  · simp; omega
  · rcases takeByteIf_cases s p1 91 with ⟨h, h'⟩ | ⟨h, _⟩ <;> rw [h] <;> simp only []
    · have hlt := get_lt h'
      simp only [Bool.not_true, Bool.false_eq_true, if_false]
      have hA2 := skipBlank_after s (p1 + 1)
      have h3 := hA2.le
      have h4 := hA2.le_size (by omega)
      have hk := variantKey_good hs _ h4
      split
      · rename_i key q heq
        rw [show variantKey s (skipBlank s (p1 + 1)) = R.ok key q from heq] at hk
        obtain ⟨h5, h6, h7, h8⟩ := hk
        have hA3 := skipBlank_after s q
        have h9 := hA3.le
        have h10 := hA3.le_size h6
        rcases (expectByte_good s (skipBlank s q) 93 h10).cases with ⟨_, q2, hr2, h11, h12, h13, h14⟩ | ⟨e2, q2, hr2, h11, h12⟩ <;>
          simp only [hr2]
        · subst h13
          rcases (IH.pattern _ h12 (bnd_succ hs h14 (by decide)) (by omega)).cases with
            ⟨o, q3, hr3, h15, h16, h17, h18⟩ | ⟨e3, q3, hr3, h15, h16⟩ <;> simp only [hr3]
          · cases o with
            | none => simp; omega
            | some value =>
              simp only []
              have hA4 := skipBlank_after s q3
              have h19 := hA4.le
              have h20 := hA4.le_size h16
              refine (IH.variants _ _ _ h20 ?_ (by omega)).mono (by omega) (fun _ _ _ _ h => h)
              rw [allVariants_append]
              exact ⟨hacc, by simp only [allVariant]; exact ⟨h8, h18 value rfl⟩⟩
          · simp; omega
        · simp; omega
      · rename_i e q heq
        rw [show variantKey s (skipBlank s (p1 + 1)) = R.err e q from heq] at hk
        have := hk.1; have := hk.2
        simp; omega
      · rename_i m heq
        rw [show variantKey s (skipBlank s (p1 + 1)) = R.panic m from heq] at hk
        exact hk.elim
      · rename_i heq
        rw [show variantKey s (skipBlank s (p1 + 1)) = R.fuel from heq] at hk
        exact hk.elim
    · simp only [Bool.not_false, if_true]
      split
      · simp; omega
      · split
        · exact (good_ok _ _ _ _ _).mpr ⟨by omega, h2, hacc⟩
        · simp; omega

theorem takeByteIf_after (s : Src) (p : Nat) (b : UInt8) (hb : b < 128) : After s p (takeByteIf s p b).1 := by
  rcases takeByteIf_cases s p b with ⟨h, h'⟩ | ⟨h, _⟩ <;> rw [h]
  · exact After.step ⟨b, h', hb⟩
  · exact After.refl _ _

theorem callArgsLoop_step {s : Src} {n : Nat} (IH : Specs s n)
    (pos : List (Inline Span)) (named : List (Span × Inline Span)) (p : Nat) (hp : p ≤ s.size)
    (hpos : allInl (VSpan s) pos) (hnamed : allNamed (VSpan s) named) (hf : 4 * (s.size - p) + 2 ≤ n + 1) :
    Good s p (getCallArgsLoop s (n + 1) pos named p) (fun r _ => allInl (VSpan s) r.1 ∧ allNamed (VSpan s) r.2) := by
  simp only [getCallArgsLoop]
  split
  · split
    · exact (good_ok _ _ _ _ _).mpr ⟨Nat.le_refl _, hp, hpos, hnamed⟩
    · have next_ok : ∀ pos' named' q', p < q' → q' ≤ s.size → allInl (VSpan s) pos' → allNamed (VSpan s) named' →
          Good s p (getCallArgsLoop s n pos' named' (skipBlank s (takeByteIf s (skipBlank s q') 44).fst))
            (fun r _ => allInl (VSpan s) r.1 ∧ allNamed (VSpan s) r.2) := by
        intro pos' named' q' h1 h2 h3 h4
        have hA := ((skipBlank_after s q').trans (takeByteIf_after s _ 44 (by decide))).trans (skipBlank_after s _)
        have h5 := hA.le
        have h6 := hA.le_size h2
        exact (IH.callArgsLoop pos' named' _ h6 h3 h4 (by omega)).mono (by omega) (fun _ _ _ _ h => h)
      rcases (IH.inline false p hp (by omega)).cases with ⟨exp, q, hr, h1, h2, h3, h4⟩ | ⟨e, q, hr, h1, h2⟩ <;> simp only [hr]
      · have hA := skipBlank_after s q
        have h5 := hA.le
        have h6 := hA.le_size h2
        have hpos' : allInl (VSpan s) (pos ++ [exp]) := (allInl_append _ _ _).mpr ⟨hpos, h4⟩
        split
        · rename_i id
          split
          · rename_i hc
            have hc := (isCurrentByte_iff _ _ _).mp hc
            have hlt := get_lt hc
            split
            · simp; omega
            · have hA2 := skipBlank_after s (skipBlank s q + 1)
              have h7 := hA2.le
              have h8 := hA2.le_size (by omega)
              rcases (IH.inline true _ h8 (by omega)).cases with ⟨val, q3, hr3, h9, h10, h11, h12⟩ | ⟨e, q3, hr3, h9, h10⟩ <;>
                simp only [hr3]
              · refine next_ok _ _ q3 (by omega) h10 hpos ?_
                rw [allNamed_append]
                exact ⟨hnamed, by simpa [VI, allInline, OptAll] using h4, h12⟩
              · simp; omega
          · split
            · simp; omega
            · exact next_ok _ _ _ (by omega) h6 hpos' hnamed
        · split
          · simp; omega
          · exact next_ok _ _ _ (by omega) h2 hpos' hnamed
      · simp; omega
  · exact (good_ok _ _ _ _ _).mpr ⟨Nat.le_refl _, hp, hpos, hnamed⟩

theorem inline_step {s : Src} (hs : AsciiThenBoundary s) {n : Nat} (IH : Specs s n) (ol : Bool) (p : Nat) (hp : p ≤ s.size)
    (hf : 4 * (s.size - p) + 1 ≤ n + 1) :
    Good s p (getInline s (n + 1) ol p) (fun e q => p < q ∧ VI s e) := by
  simp only [getInline]
  have hfb : Good s p (if ol = true then (R.err (mkErr .expectedLiteral p) p : R (Inline Span))
      else .err (mkErr .expectedInlineExpression p) p) (fun e q => p < q ∧ VI s e) := by
    split <;> simp [hp]
  split
  · exact hfb
  · rename_i b hb
    have hlt := get_lt hb
    split
    · -- string literal
      rename_i hq
      have hq : b = 34 := by simpa using hq
      subst hq
      rcases (scanString_good hs (p + 1) (by omega)).cases with ⟨_, q, hr, h1, h2, _⟩ | ⟨e, q, hr, h1, h2⟩ <;> simp only [hr]
      · rcases (expectByte_good s q 34 h2).cases with ⟨_, q1, hr1, h3, h4, h5, h6⟩ | ⟨e, q1, hr1, h3, h4⟩ <;> simp only [hr1]
        · subst h5
          simp only [usub, show 1 ≤ q + 1 by omega, if_true, Nat.add_sub_cancel]
          have hb1 : Bnd s (p + 1) := bnd_succ hs hb (by decide)
          have hb2 : Bnd s q := bnd_of_ascii h6 (by decide)
          rw [slice_ok h1 hb1 hb2]
          exact (good_ok _ _ _ _ _).mpr ⟨by omega, h4, by omega, vspan_mk h1 hb1 hb2⟩
        · simp; omega
      · simp; omega
    · split
      · -- number
        rename_i hd
        rcases (getNumberLiteral_good hs p ⟨b, hb, isDigit_lt b hd⟩).cases with ⟨sp, q, hr, h1, h2, h3, h4, h5⟩ | ⟨e, q, hr, h1, h2⟩ <;>
          simp only [hr]
        · exact (good_ok _ _ _ _ _).mpr ⟨h1, h2, h3, h5⟩
        · simp; omega
      · split
        · rename_i hm
          have hm : b = 45 := by simpa using hm
          subst hm
          split
          · -- term reference
            rename_i hc
            simp only [Bool.and_eq_true, Bool.not_eq_eq_eq_not, Bool.not_true] at hc
            obtain ⟨b', hb', ha'⟩ := (isIdentifierStart_iff s (p + 1)).mp hc.2
            have hid := getIdentifierUnchecked_good hs (p + 1) b' hb' ha'
            rw [show p + 1 + 1 = p + 2 from rfl] at hid
            rcases hid.cases with ⟨id, q, hr, h1, h2, h3, h4, h5⟩ | ⟨e, q, hr, h1, h2⟩ <;> simp only [hr]
            · rcases (getAttributeAccessor_good hs q h2).cases with ⟨attr, q1, hr1, h6, h7, h8⟩ | ⟨e, q1, hr1, h6, h7⟩ <;>
                simp only [hr1]
              · rcases (IH.callArguments q1 h7 (by omega)).cases with ⟨args, q2, hr2, h9, h10, h11⟩ | ⟨e, q2, hr2, h9, h10⟩ <;>
                  simp only [hr2]
                · refine (good_ok _ _ _ _ _).mpr ⟨by omega, h10, by omega, ?_⟩
                  have hattr : OptAll (VSpan s) attr := by
                    cases attr with
                    | none => trivial
                    | some a => exact h8 a rfl
                  cases args with
                  | none => exact ⟨h4, hattr⟩
                  | some pn =>
                    obtain ⟨pos, named⟩ := pn
                    have := h11 pos named rfl
                    exact ⟨h4, hattr, this.1, this.2⟩
                · simp; omega
              · simp; omega
            · simp; omega
          · rcases (getNumberLiteral_good hs p ⟨45, hb, by decide⟩).cases with ⟨sp, q, hr, h1, h2, h3, h4, h5⟩ | ⟨e, q, hr, h1, h2⟩ <;>
              simp only [hr]
            · exact (good_ok _ _ _ _ _).mpr ⟨h1, h2, h3, h5⟩
            · simp; omega
        · split
          · -- variable
            rcases (getIdentifier_good hs (p + 1) (by omega)).cases with ⟨id, q, hr, h1, h2, h3, h4, h5, _⟩ | ⟨e, q, hr, h1, h2⟩ <;>
              simp only [hr]
            · exact (good_ok _ _ _ _ _).mpr ⟨by omega, h2, by omega, h5⟩
            · simp; omega
          · split
            · -- message reference / function call
              rename_i ha
              rcases (getIdentifierUnchecked_good hs p b hb ha).cases with ⟨id, q, hr, h1, h2, h3, h4, h5⟩ | ⟨e, q, hr, h1, h2⟩ <;>
                simp only [hr]
              · rcases (IH.callArguments q h2 (by omega)).cases with ⟨args, q1, hr1, h6, h7, h8⟩ | ⟨e, q1, hr1, h6, h7⟩ <;>
                  simp only [hr1]
                · cases args with
                  | some pn =>
                    obtain ⟨pos, named⟩ := pn
                    simp only []
                    split
                    · simp; omega
                    · have := h8 pos named rfl
                      exact (good_ok _ _ _ _ _).mpr ⟨by omega, h7, by omega, h4, this.1, this.2⟩
                  | none =>
                    simp only []
                    rcases (getAttributeAccessor_good hs q1 h7).cases with ⟨attr, q2, hr2, h9, h10, h11⟩ | ⟨e, q2, hr2, h9, h10⟩ <;>
                      simp only [hr2]
                    · refine (good_ok _ _ _ _ _).mpr ⟨by omega, h10, by omega, h4, ?_⟩
                      cases attr with
                      | none => trivial
                      | some a => exact h11 a rfl
                    · simp; omega
                · simp; omega
              · simp; omega
            · split
              · -- nested placeable
                rcases (IH.placeable (p + 1) (by omega) (by omega)).cases with ⟨e, q, hr, h1, h2, h3, h4⟩ | ⟨e, q, hr, h1, h2⟩ <;>
                  simp only [hr]
                · exact (good_ok _ _ _ _ _).mpr ⟨by omega, h2, by omega, h4⟩
                · simp; omega
              · exact hfb

/-- a whitespace-only line is only recorded when it ended in a line feed -/
theorem wsline_lf (role : TextPos) (nb : Bool) (term : Termination) (e : Bool)
    (hc2 : (role != .lineStart || nb || term == .lineFeed || role == .lineStart && term == .placeableStart && e) = true)
    (hc3 : (role == .lineStart && !nb && !(role == .lineStart && term == .placeableStart && e)) = true) :
    term = .lineFeed := by
  cases role <;> cases nb <;> cases term <;> cases e <;> simp_all

/-- the element pushed for a text slice (replica of the model's local `el`) -/
def elOf (st : PatState) (p indent stop : Nat) (nb placeableLed : Bool) : Option Placeholder :=
  if st.role == .lineStart && !nb && !placeableLed then
    (usub stop 1).map fun a => Placeholder.text a stop 0 st.role
  else some (.text p stop indent st.role)

/-- replica of the model's local `survives` -/
def survivesOf (s : Src) (start stop : Nat) (nb : Bool) : Option Bool :=
  if nb then (slice s start stop).map fun sp => (trimEnd s sp).stop != sp.start
  else some false

/-- replica of the model's local `st2` in `getPatternLoop` (definitionally the same expression) -/
def st2Of (s : Src) (st : PatState) (p indent start stop : Nat) (nb : Bool) (term : Termination) : Option PatState :=
  let placeableLed := st.role == .lineStart && term == .placeableStart && start == stop
  if start != stop || placeableLed then
    let ci :=
      if st.role == .lineStart && (nb || placeableLed) then
        match st.commonIndent with
        | some c => if indent < c then some indent else some c
        | none => some indent
      else st.commonIndent
    if st.role != .lineStart || nb || term == .lineFeed || placeableLed then
      match elOf st p indent stop nb placeableLed, survivesOf s start stop nb with
      | some e, some sv =>
        some { st with commonIndent := ci,
                       lastNonBlank := if sv then some st.elements.length else st.lastNonBlank,
                       keptCommonIndent := if sv then ci else st.keptCommonIndent,
                       elements := st.elements ++ [e] }
      | _, _ => none
    else some { st with commonIndent := ci }
  else some st

theorem st2Of_ok {s : Src} (st : PatState) (p indent start stop : Nat) (nb : Bool) (term : Termination)
    (hel : ∀ ph ∈ st.elements, PhOk s ph) (hel1 : PhOk s (Placeholder.text p stop indent st.role))
    (hle : start ≤ stop) (hbs : Bnd s start) (hbe : Bnd s stop)
    (hlf : term = .lineFeed → 1 ≤ stop ∧ s[stop - 1]? = some 10) :
    ∃ st2, st2Of s st p indent start stop nb term = some st2 ∧ ∀ ph ∈ st2.elements, PhOk s ph := by
  unfold st2Of
  simp only []
  split
  · split
    · rename_i hc1 hc2
      have h1 : ∃ e, elOf st p indent stop nb
          (st.role == .lineStart && term == .placeableStart && start == stop) = some e ∧ PhOk s e := by
        unfold elOf
        split
        · rename_i hc3
          obtain ⟨u1, u2⟩ := hlf (wsline_lf _ _ _ _ hc2 hc3)
          refine ⟨Placeholder.text (stop - 1) stop 0 st.role, by simp only [usub, u1, if_true, Option.map_some], ?_⟩
          exact ⟨by omega, hbe, bnd_of_ascii u2 (by decide), fun j hj => by omega⟩
        · exact ⟨_, rfl, hel1⟩
      have h2 : ∃ sv, survivesOf s start stop nb = some sv := by
        unfold survivesOf
        split
        · rw [slice_ok hle hbs hbe]; exact ⟨_, rfl⟩
        · exact ⟨_, rfl⟩
      obtain ⟨e, he, hpe⟩ := h1
      obtain ⟨sv, hsv⟩ := h2
      rw [he, hsv]
      refine ⟨_, rfl, ?_⟩
      intro ph hph
      simp only [List.mem_append, List.mem_singleton] at hph
      rcases hph with hph | rfl
      · exact hel ph hph
      · exact hpe
    · exact ⟨_, rfl, hel⟩
  · exact ⟨_, rfl, hel⟩

theorem patternLoop_step {s : Src} (hs : AsciiThenBoundary s) {n : Nat} (IH : Specs s n) (st : PatState) (p : Nat)
    (hp : p ≤ s.size) (hb : Bnd s p) (hel : ∀ ph ∈ st.elements, PhOk s ph) (hf : 4 * (s.size - p) + 1 ≤ n + 1) :
    Good s p (getPatternLoop s (n + 1) st p) (fun st' q => Bnd s q ∧ ∀ ph ∈ st'.elements, PhOk s ph) := by
  simp only [getPatternLoop]
  split
  · rename_i hlt
    split
    · rcases (IH.placeable (p + 1) (by omega) (by omega)).cases with ⟨e, q, hr, h1, h2, h3, h4⟩ | ⟨e, q, hr, h1, h2⟩ <;>
        simp only [hr]
      · refine (IH.patternLoop _ q h2 h3 ?_ (by omega)).mono (by omega) (fun _ _ _ _ h => h)
        intro ph hph
        simp only [List.mem_append, List.mem_singleton] at hph
        rcases hph with hph | rfl
        · refine hel ph ?_
          revert hph
          split <;> exact id
        · exact h4
      · simp; omega
    · rename_i h123
      have hA := skipBlankInline_after s p
      have hsp := skipBlankInline_spaces s p
      have hle := hA.le
      have hle2 := hA.le_size hp
      have hb1 := hA.bnd hs hb
      split
      · -- break
        refine (good_ok _ _ _ _ _).mpr ⟨?_, ?_, ?_, hel⟩
        · split
          · split
            · exact hle
            · split
              · exact Nat.le_refl _
              · exact hle
          · exact hle
        · split
          · split
            · exact hle2
            · split
              · exact hp
              · exact hle2
          · exact hle2
        · split
          · split
            · exact hb1
            · split
              · exact hb
              · exact hb1
          · exact hb1
      · rename_i indent p1 hpre
        have hfacts : p1 < s.size ∧ p + indent = p1 ∧ Bnd s p1 ∧ (∀ j, j < indent → s[p + j]? = some 32) := by
          split at hpre
          · split at hpre
            · rename_i b hb'
              have hlt1 := get_lt hb'
              have hsp' : ∀ j, j < skipBlankInline s p - p → s[p + j]? = some 32 :=
                fun j hj => hsp (p + j) (by omega) (by omega)
              split at hpre <;> split at hpre <;> simp at hpre <;> obtain ⟨rfl, rfl⟩ := hpre <;>
                exact ⟨hlt1, by omega, hb1, hsp'⟩
            · simp at hpre
          · simp at hpre
            obtain ⟨rfl, rfl⟩ := hpre
            exact ⟨hlt, rfl, hb, fun j hj => by omega⟩
        clear hpre
        obtain ⟨f1, f2, f3, f4⟩ := hfacts
        rcases (getTextSlice_good hs p1 f1).cases with ⟨⟨start, stop, nb, term⟩, q, hr, h1, h2, h3⟩ | ⟨e, q, hr, h1, h2⟩ <;>
          simp only [hr]
        · obtain ⟨t1, t2, t3, t4, t5, t6⟩ := h3
          simp only [] at t1 t2 t3 t6
          have hprog : p < q := by
            rcases t5 with t5 | t5
            · omega
            · by_cases hpp : p1 = p
              · subst hpp; exact (h123 ((isCurrentByte_iff _ _ _).mpr t5)).elim
              · omega
          have hel1 : PhOk s (Placeholder.text p stop indent st.role) := ⟨by omega, t3, hb, f4⟩
          have hst := st2Of_ok st p indent start stop nb term hel hel1 (by omega) (t1 ▸ f3) t3 t6
          obtain ⟨st2', hs2, hs3⟩ := hst
          split
          · rename_i st2 hst2
            have e2 : st2Of s st p indent start stop nb term = some st2 := hst2
            rw [e2] at hs2
            simp only [Option.some.injEq] at hs2
            subst hs2
            refine (IH.patternLoop _ q h2 t4 ?_ (by omega)).mono (by omega) (fun _ _ _ _ h => h)
            exact hs3
          · rename_i hst2
            have e2 : st2Of s st p indent start stop nb term = none := hst2
            rw [e2] at hs2
            simp at hs2
        · simp; omega
  · exact (good_ok _ _ _ _ _).mpr ⟨Nat.le_refl _, hp, hb, hel⟩

/-- all eight specifications hold at every fuel (the fuel hypotheses are part of each) -/
theorem specs_all {s : Src} (hs : AsciiThenBoundary s) (n : Nat) : Specs s n := by
  induction n with
  | zero =>
    refine ⟨?_, ?_, ?_, ?_, ?_, ?_, ?_, ?_⟩ <;> intros <;> omega
  | succ n ih =>
    exact {
      patternLoop := fun st p h1 h2 h3 h4 => patternLoop_step hs ih st p h1 h2 h3 h4
      pattern := fun p h1 h2 h3 => pattern_step hs ih p h1 h2 h3
      placeable := fun p h1 h2 => placeable_step hs ih p h1 h2
      expression := fun p h1 h2 => expression_step ih p h1 h2
      inline := fun ol p h1 h2 => inline_step hs ih ol p h1 h2
      callArguments := fun p h1 h2 => callArguments_step ih p h1 h2
      callArgsLoop := fun pos named p h1 h2 h3 h4 => callArgsLoop_step ih pos named p h1 h2 h3 h4
      variants := fun hd acc p h1 h2 h3 => variants_step hs ih hd acc p h1 h2 h3 }

/-- `get_pattern` with the driver's fuel -/
theorem getPattern_good {s : Src} (hs : AsciiThenBoundary s) (p : Nat) (hp : p ≤ s.size) (hb : Bnd s p) :
    Good s p (getPattern s (exprFuel s) p) (fun o q => Bnd s q ∧ ∀ els, o = some els → VP s els) :=
  (specs_all hs (exprFuel s)).pattern p hp hb (by unfold exprFuel; omega)

end FluentProofs.Parser
