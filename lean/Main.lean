import FluentModel.Driver
def main (args : List String) : IO UInt32 := FluentModel.Driver.main args
