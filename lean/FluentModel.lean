import FluentModel.Driver
import FluentModel.Generated
