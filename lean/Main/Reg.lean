import FluentModel.DriverLoop
import FluentModel.Drv.RegDrv
def main : IO UInt32 := FluentModel.driverMain FluentModel.Drv.RegDrv.run
