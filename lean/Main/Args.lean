import FluentModel.DriverLoop
import FluentModel.Drv.ArgsDrv
def main : IO UInt32 := FluentModel.driverMain FluentModel.Drv.ArgsDrv.run
