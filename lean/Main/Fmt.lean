import FluentModel.DriverLoop
import FluentModel.Drv.FmtDrv
def main : IO UInt32 := FluentModel.driverMain FluentModel.Drv.FmtDrv.run
