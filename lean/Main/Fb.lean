import FluentModel.DriverLoop
import FluentModel.Drv.FbDrv
def main : IO UInt32 := FluentModel.driverMain FluentModel.Drv.FbDrv.run
