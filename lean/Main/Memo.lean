import FluentModel.DriverLoop
import FluentModel.Drv.MemoDrv
def main : IO UInt32 := FluentModel.driverMain FluentModel.Drv.MemoDrv.run
