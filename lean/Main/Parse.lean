import FluentModel.DriverLoop
import FluentModel.Drv.ParseDrv
def main : IO UInt32 := FluentModel.driverMain FluentModel.Drv.ParseDrv.run
