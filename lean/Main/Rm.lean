import FluentModel.DriverLoop
import FluentModel.Drv.RmDrv
def main : IO UInt32 := FluentModel.driverMain FluentModel.Drv.RmDrv.run
