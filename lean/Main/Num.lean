import FluentModel.DriverLoop
import FluentModel.Drv.NumDrv
def main : IO UInt32 := FluentModel.driverMain FluentModel.Drv.NumDrv.run
