import FluentModel.DriverLoop
import FluentModel.Drv.UnescDrv
def main : IO UInt32 := FluentModel.driverMain FluentModel.Drv.UnescDrv.run
