import FluentModel.DriverLoop
import FluentModel.Drv.SerDrv
def main : IO UInt32 := FluentModel.driverMain FluentModel.Drv.SerDrv.run
