import FluentModel.DriverLoop
import FluentModel.Drv.PseudoDrv
def main : IO UInt32 := FluentModel.driverMain FluentModel.Drv.PseudoDrv.run
