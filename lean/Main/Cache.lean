import FluentModel.DriverLoop
import FluentModel.Drv.CacheDrv
def main : IO UInt32 := FluentModel.driverMain FluentModel.Drv.CacheDrv.run
