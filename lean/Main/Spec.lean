import FluentModel.DriverLoop
import FluentModel.Drv.SpecDrv
def main : IO UInt32 := FluentModel.driverMain FluentModel.Drv.SpecDrv.run
