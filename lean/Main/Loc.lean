import FluentModel.DriverLoop
import FluentModel.Drv.LocDrv
def main : IO UInt32 := FluentModel.driverMain FluentModel.Drv.LocDrv.run
