//! canonical S-expression printing of `fluent_syntax::ast` (must match lean/FluentModel/Ast.lean)
use crate::util::hex_enc;
use fluent_syntax::ast::*;
use fluent_syntax::parser::{ErrorKind, ParserError};

fn h<S: AsRef<str>>(s: &S) -> String {
    hex_enc(s.as_ref().as_bytes())
}

fn opt<S: AsRef<str>>(o: &Option<Identifier<S>>) -> String {
    match o {
        Some(i) => h(&i.name),
        None => "~".to_string(),
    }
}

fn call_args<S: AsRef<str>>(a: &CallArguments<S>, out: &mut String) {
    out.push_str("(pos");
    for p in &a.positional {
        out.push(' ');
        inline(p, out);
    }
    out.push_str(") (named");
    for n in &a.named {
        out.push_str(" (na ");
        out.push_str(&h(&n.name.name));
        out.push(' ');
        inline(&n.value, out);
        out.push(')');
    }
    out.push(')');
}

pub fn inline<S: AsRef<str>>(e: &InlineExpression<S>, out: &mut String) {
    match e {
        InlineExpression::StringLiteral { value } => {
            out.push_str("(s ");
            out.push_str(&h(value));
            out.push(')');
        }
        InlineExpression::NumberLiteral { value } => {
            out.push_str("(n ");
            out.push_str(&h(value));
            out.push(')');
        }
        InlineExpression::FunctionReference { id, arguments } => {
            out.push_str("(f ");
            out.push_str(&h(&id.name));
            out.push(' ');
            call_args(arguments, out);
            out.push(')');
        }
        InlineExpression::MessageReference { id, attribute } => {
            out.push_str("(m ");
            out.push_str(&h(&id.name));
            out.push(' ');
            out.push_str(&opt(attribute));
            out.push(')');
        }
        InlineExpression::TermReference {
            id,
            attribute,
            arguments,
        } => {
            out.push_str("(tm ");
            out.push_str(&h(&id.name));
            out.push(' ');
            out.push_str(&opt(attribute));
            match arguments {
                None => out.push_str(" ~)"),
                Some(a) => {
                    out.push_str(" (args ");
                    call_args(a, out);
                    out.push_str("))");
                }
            }
        }
        InlineExpression::VariableReference { id } => {
            out.push_str("(var ");
            out.push_str(&h(&id.name));
            out.push(')');
        }
        InlineExpression::Placeable { expression } => {
            out.push_str("(pl ");
            expr(expression, out);
            out.push(')');
        }
    }
}

pub fn expr<S: AsRef<str>>(e: &Expression<S>, out: &mut String) {
    match e {
        Expression::Inline(i) => inline(i, out),
        Expression::Select { selector, variants } => {
            out.push_str("(sel ");
            inline(selector, out);
            for v in variants {
                out.push_str(" (v ");
                out.push_str(if v.default { "1" } else { "0" });
                match &v.key {
                    VariantKey::Identifier { name } => {
                        out.push_str(" (ki ");
                        out.push_str(&h(name));
                    }
                    VariantKey::NumberLiteral { value } => {
                        out.push_str(" (kn ");
                        out.push_str(&h(value));
                    }
                }
                out.push_str(") ");
                pattern(&v.value, out);
                out.push(')');
            }
            out.push(')');
        }
    }
}

pub fn pattern<S: AsRef<str>>(p: &Pattern<S>, out: &mut String) {
    out.push_str("(pat");
    for e in &p.elements {
        match e {
            PatternElement::TextElement { value } => {
                out.push_str(" (t ");
                out.push_str(&h(value));
                out.push(')');
            }
            PatternElement::Placeable { expression } => {
                out.push_str(" (p ");
                expr(expression, out);
                out.push(')');
            }
        }
    }
    out.push(')');
}

fn attrs<S: AsRef<str>>(a: &[Attribute<S>], out: &mut String) {
    out.push_str("(attrs");
    for x in a {
        out.push_str(" (a ");
        out.push_str(&h(&x.id.name));
        out.push(' ');
        pattern(&x.value, out);
        out.push(')');
    }
    out.push(')');
}

fn comment<S: AsRef<str>>(tag: &str, c: &Comment<S>, out: &mut String) {
    out.push('(');
    out.push_str(tag);
    for l in &c.content {
        out.push(' ');
        out.push_str(&h(l));
    }
    out.push(')');
}

pub fn entry<S: AsRef<str>>(e: &Entry<S>, out: &mut String) {
    match e {
        Entry::Message(m) => {
            out.push_str("(msg ");
            out.push_str(&h(&m.id.name));
            out.push(' ');
            match &m.value {
                Some(p) => pattern(p, out),
                None => out.push('~'),
            }
            out.push(' ');
            attrs(&m.attributes, out);
            out.push(' ');
            match &m.comment {
                Some(c) => comment("c", c, out),
                None => out.push('~'),
            }
            out.push(')');
        }
        Entry::Term(t) => {
            out.push_str("(term ");
            out.push_str(&h(&t.id.name));
            out.push(' ');
            pattern(&t.value, out);
            out.push(' ');
            attrs(&t.attributes, out);
            out.push(' ');
            match &t.comment {
                Some(c) => comment("c", c, out),
                None => out.push('~'),
            }
            out.push(')');
        }
        Entry::Comment(c) => comment("c", c, out),
        Entry::GroupComment(c) => comment("gc", c, out),
        Entry::ResourceComment(c) => comment("rc", c, out),
        Entry::Junk { content } => {
            out.push_str("(junk ");
            out.push_str(&h(content));
            out.push(')');
        }
    }
}

pub fn resource<S: AsRef<str>>(r: &Resource<S>) -> String {
    let mut out = String::from("(res");
    for e in &r.body {
        out.push(' ');
        entry(e, &mut out);
    }
    out.push(')');
    out
}

pub fn error(e: &ParserError) -> String {
    let k = match &e.kind {
        ErrorKind::ExpectedToken(c) => format!("ExpectedToken:{}", *c as u32),
        ErrorKind::ExpectedCharRange { range } => {
            format!("ExpectedCharRange:{}", hex_enc(range.as_bytes()))
        }
        ErrorKind::ExpectedMessageField { entry_id } => {
            format!("ExpectedMessageField:{}", hex_enc(entry_id.as_bytes()))
        }
        ErrorKind::ExpectedTermField { entry_id } => {
            format!("ExpectedTermField:{}", hex_enc(entry_id.as_bytes()))
        }
        ErrorKind::ForbiddenCallee => "ForbiddenCallee".into(),
        ErrorKind::MissingDefaultVariant => "MissingDefaultVariant".into(),
        ErrorKind::MissingValue => "MissingValue".into(),
        ErrorKind::MultipleDefaultVariants => "MultipleDefaultVariants".into(),
        ErrorKind::MessageReferenceAsSelector => "MessageReferenceAsSelector".into(),
        ErrorKind::TermReferenceAsSelector => "TermReferenceAsSelector".into(),
        ErrorKind::MessageAttributeAsSelector => "MessageAttributeAsSelector".into(),
        ErrorKind::TermAttributeAsPlaceable => "TermAttributeAsPlaceable".into(),
        ErrorKind::UnterminatedStringLiteral => "UnterminatedStringLiteral".into(),
        ErrorKind::PositionalArgumentFollowsNamed => "PositionalArgumentFollowsNamed".into(),
        ErrorKind::DuplicatedNamedArgument(s) => {
            format!("DuplicatedNamedArgument:{}", hex_enc(s.as_bytes()))
        }
        ErrorKind::UnknownEscapeSequence(s) => {
            format!("UnknownEscapeSequence:{}", hex_enc(s.as_bytes()))
        }
        ErrorKind::InvalidUnicodeEscapeSequence(s) => {
            format!("InvalidUnicodeEscapeSequence:{}", hex_enc(s.as_bytes()))
        }
        ErrorKind::UnbalancedClosingBrace => "UnbalancedClosingBrace".into(),
        ErrorKind::ExpectedInlineExpression => "ExpectedInlineExpression".into(),
        ErrorKind::ExpectedSimpleExpressionAsSelector => {
            "ExpectedSimpleExpressionAsSelector".into()
        }
        ErrorKind::ExpectedLiteral => "ExpectedLiteral".into(),
    };
    let sl = match &e.slice {
        Some(r) => format!("{} {}", r.start, r.end),
        None => "~".to_string(),
    };
    format!("(e {} {} {} {})", k, e.pos.start, e.pos.end, sl)
}

pub fn result<S: AsRef<str>>(
    r: &Result<Resource<S>, (Resource<S>, Vec<ParserError>)>,
) -> String {
    match r {
        Ok(res) => format!("{} []", resource(res)),
        Err((res, errs)) => {
            let es: Vec<String> = errs.iter().map(error).collect();
            format!("{} [{}]", resource(res), es.join(" "))
        }
    }
}
