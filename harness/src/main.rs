//! `fvh`: runs the real fluent-rs crates (path dependencies on /repo) on case lines read from
//! stdin and prints one canonical observation line per case.  The Lean driver `fvmodel` prints
//! the model's prediction for the same lines; `check` diffs the two streams.
use std::io::{BufRead, Write};
use std::panic;

mod args;
mod util;

fn dispatch(area: &str, payload: &str) -> String {
    match area {
        "args" => args::run(payload),
        _ => "bad-area".to_string(),
    }
}

fn main() {
    // keep panic messages out of stderr noise; they are reported in the observation line
    panic::set_hook(Box::new(|_| {}));
    let stdin = std::io::stdin();
    let stdout = std::io::stdout();
    let mut out = stdout.lock();
    for line in stdin.lock().lines() {
        let line = match line {
            Ok(l) => l,
            Err(_) => break,
        };
        let (area, payload) = match line.find(' ') {
            Some(i) => (&line[..i], &line[i + 1..]),
            None => (&line[..], ""),
        };
        let res = panic::catch_unwind(|| dispatch(area, payload));
        let obs = match res {
            Ok(s) => s,
            Err(e) => {
                let msg = if let Some(s) = e.downcast_ref::<&str>() {
                    s.to_string()
                } else if let Some(s) = e.downcast_ref::<String>() {
                    s.clone()
                } else {
                    "?".to_string()
                };
                format!("PANIC {}", msg.replace('\n', " "))
            }
        };
        // one line per case, flushed, so that an abort identifies the culprit case
        let _ = writeln!(out, "{}", obs);
        let _ = out.flush();
    }
}
