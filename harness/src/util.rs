use fluent_bundle::types::{FluentNumber, FluentNumberOptions, FluentNumberType, FluentType};
use fluent_bundle::FluentValue;
use std::borrow::Cow;

pub fn hex_enc(b: &[u8]) -> String {
    if b.is_empty() {
        return "-".to_string();
    }
    let mut s = String::with_capacity(b.len() * 2);
    for x in b {
        s.push_str(&format!("{:02x}", x));
    }
    s
}

pub fn hex_dec(s: &str) -> Option<Vec<u8>> {
    if s == "-" {
        return Some(vec![]);
    }
    if s.len() % 2 != 0 {
        return None;
    }
    let b = s.as_bytes();
    let mut out = Vec::with_capacity(b.len() / 2);
    for i in (0..b.len()).step_by(2) {
        let h = (b[i] as char).to_digit(16)?;
        let l = (b[i + 1] as char).to_digit(16)?;
        out.push((h * 16 + l) as u8);
    }
    Some(out)
}

pub fn hex_str(s: &str) -> Option<String> {
    String::from_utf8(hex_dec(s)?).ok()
}

/// custom value type used by the harness
#[derive(Debug, PartialEq, Clone)]
pub struct Custom(pub String);

impl FluentType for Custom {
    fn duplicate(&self) -> Box<dyn FluentType + Send> {
        Box::new(self.clone())
    }
    fn as_string(&self, _: &intl_memoizer::IntlLangMemoizer) -> Cow<'static, str> {
        format!("<{}>", self.0).into()
    }
    fn as_string_threadsafe(
        &self,
        _: &intl_memoizer::concurrent::IntlLangMemoizer,
    ) -> Cow<'static, str> {
        format!("<{}>", self.0).into()
    }
}

/// canonical observation of a value (see FluentModel/Drv/Common.lean `canonVal`)
pub fn canon_val(v: &FluentValue) -> String {
    match v {
        FluentValue::String(Cow::Borrowed(s)) => format!("Sb{}", hex_enc(s.as_bytes())),
        FluentValue::String(Cow::Owned(s)) => format!("So{}", hex_enc(s.as_bytes())),
        FluentValue::Number(n) => canon_num(n),
        FluentValue::Custom(c) => {
            if let Some(c) = c.as_any().downcast_ref::<Custom>() {
                format!("C{}", hex_enc(c.0.as_bytes()))
            } else {
                "C?".to_string()
            }
        }
        FluentValue::None => "Z".to_string(),
        FluentValue::Error => "E".to_string(),
    }
}

pub fn canon_num(n: &FluentNumber) -> String {
    format!(
        "N{}/{}/{}",
        n.value,
        match n.options.minimum_fraction_digits {
            Some(m) => m.to_string(),
            None => "-".to_string(),
        },
        match n.options.r#type {
            FluentNumberType::Cardinal => "c",
            FluentNumberType::Ordinal => "o",
        }
    )
}

/// Strings a case refers to are decoded up front into an arena so that borrowed keys/values can
/// outlive the `FluentArgs` that borrows them.
pub enum Tok {
    Str(String),  // s
    Own(String),  // o
    Int(i64),     // i
    U8(u8),       // u
    F64(f64),     // f
    Try(String),  // t
    Num(f64, Option<usize>), // n
    Cust(String), // c
    Nil,          // z
}

pub fn parse_tok(t: &str) -> Option<Tok> {
    let (k, r) = t.split_at(1.min(t.len()));
    Some(match k {
        "s" => Tok::Str(hex_str(r)?),
        "o" => Tok::Own(hex_str(r)?),
        "c" => Tok::Cust(hex_str(r)?),
        "t" => Tok::Try(hex_str(r)?),
        "i" => Tok::Int(r.parse().ok()?),
        "u" => Tok::U8(r.parse().ok()?),
        "f" => Tok::F64(r.parse().ok()?),
        "z" if r.is_empty() => Tok::Nil,
        "n" => {
            let (v, m) = r.split_once('/')?;
            let m = if m == "-" { None } else { Some(m.parse().ok()?) };
            Tok::Num(v.parse().ok()?, m)
        }
        _ => return None,
    })
}

pub fn tok_value<'a>(t: &'a Tok) -> FluentValue<'a> {
    match t {
        Tok::Str(s) => FluentValue::from(s.as_str()),
        Tok::Own(s) => FluentValue::from(s.clone()),
        Tok::Int(i) => FluentValue::from(*i),
        Tok::U8(u) => FluentValue::from(*u),
        Tok::F64(f) => FluentValue::from(*f),
        Tok::Try(s) => FluentValue::try_number(s.as_str()),
        Tok::Num(v, m) => FluentValue::Number(FluentNumber::new(
            *v,
            FluentNumberOptions {
                minimum_fraction_digits: *m,
                ..Default::default()
            },
        )),
        Tok::Cust(s) => FluentValue::Custom(Box::new(Custom(s.clone()))),
        Tok::Nil => FluentValue::from(Option::<&str>::None),
    }
}
