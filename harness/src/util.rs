use fluent_bundle::types::{FluentNumber, FluentNumberOptions, FluentNumberType, FluentType};
use fluent_bundle::FluentValue;
use std::borrow::Cow;

pub fn hex_enc(b: &[u8]) -> String {
    if b.is_empty() {
        return "-".to_string();
    }
    let mut s = String::with_capacity(b.len() * 2);
    for x in b {
        s.push_str(&format!("{:02x}", x));
    }
    s
}

pub fn hex_dec(s: &str) -> Option<Vec<u8>> {
    if s == "-" {
        return Some(vec![]);
    }
    if s.len() % 2 != 0 {
        return None;
    }
    let b = s.as_bytes();
    let mut out = Vec::with_capacity(b.len() / 2);
    for i in (0..b.len()).step_by(2) {
        let h = (b[i] as char).to_digit(16)?;
        let l = (b[i + 1] as char).to_digit(16)?;
        out.push((h * 16 + l) as u8);
    }
    Some(out)
}

pub fn hex_str(s: &str) -> Option<String> {
    String::from_utf8(hex_dec(s)?).ok()
}

/// custom value type used by the harness
#[derive(Debug, PartialEq, Clone)]
pub struct Custom(pub String);

impl FluentType for Custom {
    fn duplicate(&self) -> Box<dyn FluentType + Send> {
        Box::new(self.clone())
    }
    fn as_string(&self, _: &intl_memoizer::IntlLangMemoizer) -> Cow<'static, str> {
        format!("<{}>", self.0).into()
    }
    fn as_string_threadsafe(
        &self,
        _: &intl_memoizer::concurrent::IntlLangMemoizer,
    ) -> Cow<'static, str> {
        format!("<{}>", self.0).into()
    }
}

/// custom value whose string form goes through the bundle's formatter memoizer (a `Memoizable` that may fail
/// to construct): `[tag]`, or `!err` when the tag starts with `bad`
#[derive(Debug, PartialEq, Clone)]
pub struct MemoCustom(pub String);

pub struct TagFormatter(String, std::sync::atomic::AtomicUsize);

/// tags starting with `cnt`: a formatter with PER-INSTANCE state - every use takes the next number of its instance and
/// logs (tag, number) here.  One instance per (bundle, tag) hands out each number once; two instances repeat numbers.
pub static COUNTER_LOG: std::sync::Mutex<Vec<(String, usize)>> = std::sync::Mutex::new(Vec::new());

/// numbers handed out since the last call, per tag, sorted
pub fn take_counter_log() -> std::collections::BTreeMap<String, Vec<usize>> {
    let mut m = std::collections::BTreeMap::new();
    let mut g = COUNTER_LOG.lock().unwrap_or_else(|e| e.into_inner());
    for (t, k) in g.drain(..) {
        m.entry(t).or_insert_with(Vec::new).push(k);
    }
    for v in m.values_mut() {
        v.sort_unstable();
    }
    m
}

fn count_use(f: &TagFormatter) {
    if f.0.starts_with("[cnt") {
        let k = f.1.fetch_add(1, std::sync::atomic::Ordering::SeqCst);
        COUNTER_LOG.lock().unwrap_or_else(|e| e.into_inner()).push((f.0.clone(), k));
    }
}

/// the formatter's argument: `Hash` is deliberately coarser than `Eq` (length only), so a cache that files
/// formatters under the hash of their arguments hands `[ok1]` to a request for `ok2`
#[derive(Clone, PartialEq, Eq)]
pub struct TagArgs(pub String);

impl std::hash::Hash for TagArgs {
    fn hash<H: std::hash::Hasher>(&self, h: &mut H) {
        self.0.len().hash(h)
    }
}

impl intl_memoizer::Memoizable for TagFormatter {
    type Args = (TagArgs,);
    type Error = ();
    fn construct(_lang: unic_langid::LanguageIdentifier, args: Self::Args) -> Result<Self, Self::Error> {
        let args = ((args.0).0,);
        if args.0.starts_with("slow") {
            // a slow constructor: other threads arrive while this one is being built
            std::thread::sleep(std::time::Duration::from_millis(3));
        }
        if args.0.starts_with("bad") {
            Err(())
        } else {
            Ok(TagFormatter(format!("[{}]", args.0), std::sync::atomic::AtomicUsize::new(0)))
        }
    }
}

/// a second memoized formatter kind whose ARGUMENT TYPE is the one fluent-bundle's own `PluralRules` uses,
/// `(PluralRuleType,)`: tags starting with `rc` / `ro` go through it (with CARDINAL / ORDINAL). A memoizer that files
/// formatters under their argument type, or lets kinds with equal arguments share a table, conflates it with the
/// plural rules of the same bundle.
pub struct RuleSuffix(&'static str);

impl intl_memoizer::Memoizable for RuleSuffix {
    type Args = (intl_pluralrules::PluralRuleType,);
    type Error = ();
    fn construct(_lang: unic_langid::LanguageIdentifier, args: Self::Args) -> Result<Self, Self::Error> {
        Ok(RuleSuffix(if args.0 == intl_pluralrules::PluralRuleType::ORDINAL { "o" } else { "c" }))
    }
}

fn rule_kind(tag: &str) -> Option<intl_pluralrules::PluralRuleType> {
    if tag.starts_with("rc") {
        Some(intl_pluralrules::PluralRuleType::CARDINAL)
    } else if tag.starts_with("ro") {
        Some(intl_pluralrules::PluralRuleType::ORDINAL)
    } else {
        None
    }
}

impl FluentType for MemoCustom {
    fn duplicate(&self) -> Box<dyn FluentType + Send> {
        Box::new(self.clone())
    }
    fn as_string(&self, intls: &intl_memoizer::IntlLangMemoizer) -> Cow<'static, str> {
        if let Some(kind) = rule_kind(&self.0) {
            let want = if kind == intl_pluralrules::PluralRuleType::ORDINAL { "o" } else { "c" };
            return intls
                .with_try_get::<RuleSuffix, _, _>((kind,), |f| if f.0 == want { format!("[{}]", self.0) } else { "!wrong-formatter".to_string() })
                .unwrap_or_else(|_| "!err".to_string())
                .into();
        }
        intls
            .with_try_get::<TagFormatter, _, _>((TagArgs(self.0.clone()),), |f| {
                count_use(f);
                f.0.clone()
            })
            .unwrap_or_else(|_| "!err".to_string())
            .into()
    }
    fn as_string_threadsafe(
        &self,
        intls: &intl_memoizer::concurrent::IntlLangMemoizer,
    ) -> Cow<'static, str> {
        if let Some(kind) = rule_kind(&self.0) {
            let want = if kind == intl_pluralrules::PluralRuleType::ORDINAL { "o" } else { "c" };
            return intls
                .with_try_get::<RuleSuffix, _, _>((kind,), |f| if f.0 == want { format!("[{}]", self.0) } else { "!wrong-formatter".to_string() })
                .unwrap_or_else(|_| "!err".to_string())
                .into();
        }
        intls
            .with_try_get::<TagFormatter, _, _>((TagArgs(self.0.clone()),), |f| {
                if f.0.starts_with("[lazy") {
                    // a slow format callback: the formatter is still in use while other threads extend the cache
                    std::thread::sleep(std::time::Duration::from_millis(3));
                }
                count_use(f);
                f.0.clone()
            })
            .unwrap_or_else(|_| "!err".to_string())
            .into()
    }
}

/// canonical observation of a value (see FluentModel/Drv/Common.lean `canonVal`)
pub fn canon_val(v: &FluentValue) -> String {
    match v {
        FluentValue::String(Cow::Borrowed(s)) => format!("Sb{}", hex_enc(s.as_bytes())),
        FluentValue::String(Cow::Owned(s)) => format!("So{}", hex_enc(s.as_bytes())),
        FluentValue::Number(n) => canon_num(n),
        FluentValue::Custom(c) => {
            if let Some(c) = c.as_any().downcast_ref::<Custom>() {
                format!("C{}", hex_enc(c.0.as_bytes()))
            } else if let Some(c) = c.as_any().downcast_ref::<MemoCustom>() {
                format!("C{}", hex_enc(format!("memo:{}", c.0).as_bytes()))
            } else {
                "C?".to_string()
            }
        }
        FluentValue::None => "Z".to_string(),
        FluentValue::Error => "E".to_string(),
    }
}

pub fn canon_num(n: &FluentNumber) -> String {
    format!(
        "N{}/{}/{}",
        n.value,
        match n.options.minimum_fraction_digits {
            Some(m) => m.to_string(),
            None => "-".to_string(),
        },
        match n.options.r#type {
            FluentNumberType::Cardinal => "c",
            FluentNumberType::Ordinal => "o",
        }
    )
}

/// Strings a case refers to are decoded up front into an arena so that borrowed keys/values can
/// outlive the `FluentArgs` that borrows them.
pub enum Tok {
    Str(String),  // s
    Own(String),  // o
    Int(i64),     // i
    U8(u8),       // u
    F64(f64),     // f
    Try(String),  // t
    Num(f64, Option<usize>), // n
    NumOrd(f64, Option<usize>), // n…/o
    Cust(String), // c
    Memo(String), // m
    Nil,          // z
}

pub fn parse_tok(t: &str) -> Option<Tok> {
    let (k, r) = t.split_at(1.min(t.len()));
    Some(match k {
        "s" => Tok::Str(hex_str(r)?),
        "o" => Tok::Own(hex_str(r)?),
        "c" => Tok::Cust(hex_str(r)?),
        "m" => Tok::Memo(hex_str(r)?),
        "t" => Tok::Try(hex_str(r)?),
        "i" => Tok::Int(r.parse().ok()?),
        "u" => Tok::U8(r.parse().ok()?),
        "f" => Tok::F64(r.parse().ok()?),
        "z" if r.is_empty() => Tok::Nil,
        "n" => {
            let (v, m) = r.split_once('/')?;
            // `n<v>/<mfd>/o`: the caller's number already carries type = ordinal
            let (m, ordinal) = match m.strip_suffix("/o") {
                Some(m) => (m, true),
                None => (m, false),
            };
            let m = if m == "-" { None } else { Some(m.parse().ok()?) };
            if ordinal {
                Tok::NumOrd(v.parse().ok()?, m)
            } else {
                Tok::Num(v.parse().ok()?, m)
            }
        }
        _ => return None,
    })
}

pub fn tok_value<'a>(t: &'a Tok) -> FluentValue<'a> {
    match t {
        Tok::Str(s) => FluentValue::from(s.as_str()),
        Tok::Own(s) => FluentValue::from(s.clone()),
        Tok::Int(i) => FluentValue::from(*i),
        Tok::U8(u) => FluentValue::from(*u),
        Tok::F64(f) => FluentValue::from(*f),
        Tok::Try(s) => FluentValue::try_number(s.as_str()),
        Tok::Num(v, m) => FluentValue::Number(FluentNumber::new(
            *v,
            FluentNumberOptions {
                minimum_fraction_digits: *m,
                ..Default::default()
            },
        )),
        Tok::NumOrd(v, m) => FluentValue::Number(FluentNumber::new(
            *v,
            FluentNumberOptions {
                minimum_fraction_digits: *m,
                r#type: fluent_bundle::types::FluentNumberType::Ordinal,
                ..Default::default()
            },
        )),
        Tok::Cust(s) => FluentValue::Custom(Box::new(Custom(s.clone()))),
        Tok::Memo(s) => FluentValue::Custom(Box::new(MemoCustom(s.clone()))),
        Tok::Nil => FluentValue::from(Option::<&str>::None),
    }
}

// ---------------------------------------------------------------------------------------------
// structured resource descriptions (areas `reg`, `rm`): see lean/FluentModel/Drv/RegDrv.lean
//   res  := desc (`,` desc)*        desc := m/<id>/<val|~>/<attrs> | t/<id>/<val>/<attrs> | e/<id> | j | c
//   attrs := (<name>=<val> (`+` <name>=<val>)*)?          all of id/name/val are hex tokens

/// FTL text of a structured resource description (None = malformed description)
pub fn render_res(desc: &str) -> Option<String> {
    let mut out = String::new();
    if desc.is_empty() {
        return Some(out);
    }
    for d in desc.split(',') {
        let p: Vec<&str> = d.split('/').collect();
        match p.as_slice() {
            ["j"] => out.push_str("!!!\n"),
            ["c"] => out.push_str("# c\n"),
            ["e", id] => {
                out.push_str(&hex_str(id)?);
                out.push_str(" =\n");
            }
            [k @ ("m" | "t"), id, v, attrs] => {
                if *k == "t" {
                    out.push('-');
                }
                out.push_str(&hex_str(id)?);
                if *v == "~" {
                    if *k == "t" {
                        return None;
                    }
                    out.push_str(" =\n");
                } else {
                    out.push_str(" = ");
                    out.push_str(&hex_str(v)?);
                    out.push('\n');
                }
                if !attrs.is_empty() {
                    for nv in attrs.split('+') {
                        let (n, v) = nv.split_once('=')?;
                        out.push_str("    .");
                        out.push_str(&hex_str(n)?);
                        out.push_str(" = ");
                        out.push_str(&hex_str(v)?);
                        out.push('\n');
                    }
                }
            }
            _ => return None,
        }
    }
    Some(out)
}

/// hex of the text of a pattern; a placeable is printed as `{}` (never produced by `render_res` texts)
pub fn pat_text(p: &fluent_syntax::ast::Pattern<&str>) -> String {
    let mut s = String::new();
    for e in &p.elements {
        match e {
            fluent_syntax::ast::PatternElement::TextElement { value } => s.push_str(value),
            fluent_syntax::ast::PatternElement::Placeable { .. } => s.push_str("{}"),
        }
    }
    hex_enc(s.as_bytes())
}

/// `M`/`T`/`J`/`C` per body entry of a parsed resource (`-` = empty body)
pub fn res_shape(r: &fluent_bundle::FluentResource) -> String {
    let s: String = r
        .entries()
        .map(|e| match e {
            fluent_syntax::ast::Entry::Message(_) => 'M',
            fluent_syntax::ast::Entry::Term(_) => 'T',
            fluent_syntax::ast::Entry::Junk { .. } => 'J',
            _ => 'C',
        })
        .collect();
    if s.is_empty() {
        "-".to_string()
    } else {
        s
    }
}
