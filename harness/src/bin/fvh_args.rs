//! area `args`: FluentArgs op sequences (C11)
use fvh::util::*;
use fluent::fluent_args;
use fluent_bundle::{FluentArgs, FluentValue};

enum Op {
    Set(String, bool, Tok),
    Get(String, bool),
    Iter,
    Into,
    FromIter(Vec<(String, Tok)>),
    Macro(Vec<(String, Tok)>),
}

fn parse_pairs(s: &str) -> Option<Vec<(String, Tok)>> {
    if s.is_empty() {
        return Some(vec![]);
    }
    s.split(',')
        .map(|kv| {
            let (k, v) = kv.split_once('=')?;
            Some((hex_str(k)?, parse_tok(v)?))
        })
        .collect()
}

fn parse_op(op: &str) -> Option<Op> {
    let p: Vec<&str> = op.split(':').collect();
    Some(match p.as_slice() {
        ["set", k, kk, v] => Op::Set(hex_str(k)?, *kk == "o", parse_tok(v)?),
        ["get", k, kk] => Op::Get(hex_str(k)?, *kk == "o"),
        ["iter"] => Op::Iter,
        ["into"] => Op::Into,
        ["fromiter", ps] => Op::FromIter(parse_pairs(ps)?),
        ["macro", ps] => Op::Macro(parse_pairs(ps)?),
        _ => return None,
    })
}

struct Hinted<I> {
    it: I,
    hint: (usize, Option<usize>),
}

impl<I: Iterator> Iterator for Hinted<I> {
    type Item = I::Item;
    fn next(&mut self) -> Option<I::Item> {
        self.it.next()
    }
    fn size_hint(&self) -> (usize, Option<usize>) {
        self.hint
    }
}

fn show<'a, I: Iterator<Item = (String, String)>>(it: I) -> String {
    let v: Vec<String> = it.map(|(k, v)| format!("{}={}", k, v)).collect();
    format!("[{}]", v.join(","))
}

/// `macro_rules!` hygiene covers local variables, NOT items: a `const`/`static`/`fn` the expansion defines shadows a
/// caller-side item of the same name inside the key and value expressions. The caller here owns items with the names
/// an implementation is most likely to pick; every one of them must arrive unchanged.
fn macro_hygiene_ok() -> bool {
    const COUNT: i64 = 5;
    const LEN: i64 = 6;
    const N: i64 = 7;
    const CAPACITY: i64 = 8;
    const SIZE: i64 = 9;
    const ARGS: i64 = 10;
    const PAIRS: i64 = 11;
    const VALUE: i64 = 12;
    const KEY: &str = "h";
    static ARGS_LEN: i64 = 13;
    fn len() -> i64 {
        14
    }
    let a = fluent_args!["a" => COUNT, "b" => LEN, "c" => N, "d" => CAPACITY, "e" => SIZE, "f" => ARGS, "g" => PAIRS, KEY => VALUE,
                         "i" => ARGS_LEN, "j" => len()];
    let want = [("a", 5), ("b", 6), ("c", 7), ("d", 8), ("e", 9), ("f", 10), ("g", 11), ("h", 12), ("i", 13), ("j", 14)];
    want.iter().all(|(k, v)| matches!(a.get(*k), Some(FluentValue::Number(n)) if n.value == *v as f64)) && a.iter().count() == want.len()
}

fn via_macro<'a>(ps: &'a [(String, Tok)]) -> Option<FluentArgs<'a>> {
    if !macro_hygiene_ok() {
        return None;
    }
    // key and value expressions with a side effect (each pulls the next item of an iterator): an expansion that
    // evaluates an expression twice, or not at all, shifts every later pair
    let ki = std::cell::RefCell::new(ps.iter().map(|p| p.0.as_str()));
    let vi = std::cell::RefCell::new(ps.iter().map(|p| &p.1));
    let k = |_: usize| ki.borrow_mut().next().unwrap_or("<key expression evaluated again>");
    let v = |_: usize| match vi.borrow_mut().next() {
        Some(t) => tok_value(t),
        None => FluentValue::from("<value expression evaluated again>"),
    };
    let a = match ps.len() {
        0 => fluent_args![],
        1 => fluent_args![k(0) => v(0)],
        2 => {
            // keys that are bare identifiers (local variables holding the key): the VALUE of the variable is the key
            let (ka, kb) = (k(0), k(1));
            fluent_args![ka => v(0), kb => v(1)]
        }
        3 => fluent_args![k(0) => v(0), k(1) => v(1), k(2) => v(2)],
        4 => fluent_args![k(0) => v(0), k(1) => v(1), k(2) => v(2), k(3) => v(3),],
        5 => fluent_args![k(0) => v(0), k(1) => v(1), k(2) => v(2), k(3) => v(3), k(4) => v(4)],
        _ => return None,
    };
    // every expression evaluated exactly once: both iterators are exhausted and were never over-drawn
    if ki.borrow_mut().next().is_some() || vi.borrow_mut().next().is_some() {
        return None;
    }
    Some(a)
}

fn run(payload: &str) -> String {
    let ops: Vec<Option<Op>> = payload.split(';').map(parse_op).collect();
    let mut args: FluentArgs = FluentArgs::new();
    let mut outs: Vec<String> = vec![];
    for op in ops.iter() {
        let o = match op {
            None => "bad-op".to_string(),
            Some(Op::Set(k, owned, t)) => {
                if *owned {
                    args.set(k.clone(), tok_value(t));
                } else {
                    args.set(k.as_str(), tok_value(t));
                }
                "ok".to_string()
            }
            Some(Op::Get(k, owned)) => {
                // a borrowed lookup key is, when possible, a SLICE OF THE BUFFER of a key that was set borrowed earlier
                // (same start address, shorter or equal length - a path looked up by its prefixes): names are equal
                // when their bytes are, not when their addresses are
                let sliced: Option<&str> = ops.iter().flatten().find_map(|o| match o {
                    Op::Set(k2, false, _) if k2.len() >= k.len() && k2.is_char_boundary(k.len()) && k2[..k.len()] == **k => Some(&k2[..k.len()]),
                    _ => None,
                });
                let r: Option<&FluentValue> = if *owned {
                    args.get(k.clone())
                } else {
                    args.get(sliced.unwrap_or(k.as_str()))
                };
                match r {
                    Some(v) => format!("some={}", canon_val(v)),
                    None => "none".to_string(),
                }
            }
            Some(Op::Iter) => {
                // the Iterator PROTOCOL: whichever way the iterator is consumed (skip, step_by, nth, piecewise, count,
                // last, size_hint), it walks the same sequence as the plain loop
                let plain: Vec<&str> = args.iter().map(|(k, _)| k).collect();
                let n = plain.len();
                let mut ok = args.iter().count() == n && args.iter().last().map(|(k, _)| k) == plain.last().copied();
                let (lo, hi) = args.iter().size_hint();
                ok &= lo <= n && hi.map_or(true, |h| h >= n);
                for k in 0..=n.min(3) {
                    ok &= args.iter().skip(k).map(|(k, _)| k).collect::<Vec<_>>() == plain[k.min(n)..];
                    let mut it = args.iter();
                    let got = it.nth(k).map(|(k, _)| k);
                    ok &= got == plain.get(k).copied();
                    ok &= it.map(|(k, _)| k).collect::<Vec<_>>() == plain[(k + 1).min(n)..];
                }
                for step in 1..=3usize {
                    ok &= args.iter().step_by(step).map(|(k, _)| k).collect::<Vec<_>>() == plain.iter().step_by(step).copied().collect::<Vec<_>>();
                }
                let mut it = args.iter();
                let first = it.next().map(|(k, _)| k);
                ok &= first == plain.first().copied() && it.skip(1).map(|(k, _)| k).collect::<Vec<_>>() == plain[2.min(n)..];
                if !ok {
                    "ITER-PROTOCOL-DISAGREE".to_string()
                } else {
                    show(args.iter().map(|(k, v)| (hex_enc(k.as_bytes()), canon_val(v))))
                }
            }
            Some(Op::Into) => {
                let a = std::mem::take(&mut args);
                show(
                    a.into_iter()
                        .map(|(k, v)| (hex_enc(k.as_bytes()), canon_val(&v))),
                )
            }
            Some(Op::FromIter(ps)) => {
                // "collection from ANY iterator of pairs": the iterator's size hint is exact, absent, or the legal
                // over-approximation that adapters such as `(0..usize::MAX).filter(..)` report
                let it = ps.iter().map(|(k, t)| (k.as_str(), tok_value(t)));
                args = match ps.len() % 3 {
                    0 => it.collect(),
                    1 => Hinted { it, hint: (0, None) }.collect(),
                    _ => Hinted { it, hint: (0, Some(usize::MAX)) }.collect(),
                };
                "ok".to_string()
            }
            Some(Op::Macro(ps)) => match via_macro(ps) {
                Some(a) => {
                    args = a;
                    "ok".to_string()
                }
                None => "bad-op".to_string(),
            },
        };
        outs.push(o);
    }
    outs.join(";")
}

fn main() {
    fvh::run_main(run);
}
