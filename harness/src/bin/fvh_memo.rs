//! area `memo`: formatter memoizers (C14)
//!
//! * `seq  <ops>`  : `intl_memoizer::IntlMemoizer::get_for_lang` + `Rc<IntlLangMemoizer>` handles
//! * `cseq <ops>`  : `Arc<intl_memoizer::concurrent::IntlLangMemoizer>` handles used from one thread
//! * `conc <lang> <sched> <prog>|<prog>|…` : one cold `concurrent::IntlLangMemoizer`, one real thread per
//!   program, released together by a barrier.  `sched` is only for the model; the OS picks the real schedule, so
//!   this is schedule SAMPLING.
//!
//! The formatter types are counting `Memoizable` implementations living here: every `construct` call is logged
//! (type, language, arguments, result) and successful constructions hand out serial numbers, so the observation
//! shows how often, with what and for whom the memoizer constructed, and which instance every callback saw.
use fluent_bundle::memoizer::MemoizerKind;
use intl_memoizer::concurrent::IntlLangMemoizer as ConcMemo;
use intl_memoizer::{IntlLangMemoizer as SeqMemo, IntlMemoizer, Memoizable};
use std::cell::RefCell;
use std::collections::HashMap;
use std::rc::Rc;
use std::sync::atomic::{AtomicBool, AtomicUsize, Ordering};
use std::sync::{Arc, Barrier, Mutex};
use unic_langid::LanguageIdentifier;

// ---------------------------------------------------------------------------------------------
// the external world of the test formatters (reset per case)

struct EventRec {
    ty: &'static str,
    lang: String,
    arg: String,
    res: Result<u64, String>,
}

#[derive(Default)]
struct World {
    serial: u64,
    attempts: HashMap<(&'static str, String, String), u32>,
    log: Vec<EventRec>,
}

static WORLD: Mutex<Option<World>> = Mutex::new(None);
/// number of threads currently inside `construct` or a callback
static INSIDE: AtomicUsize = AtomicUsize::new(0);
static OVERLAPS: AtomicUsize = AtomicUsize::new(0);
/// widen race windows (concurrent mode)
static YIELD: AtomicBool = AtomicBool::new(false);

fn world_lock() -> std::sync::MutexGuard<'static, Option<World>> {
    WORLD.lock().unwrap_or_else(|e| e.into_inner())
}

fn reset_world(yielding: bool) {
    *world_lock() = Some(World::default());
    INSIDE.store(0, Ordering::SeqCst);
    OVERLAPS.store(0, Ordering::SeqCst);
    YIELD.store(yielding, Ordering::SeqCst);
}

struct Section;
impl Section {
    fn enter() -> Section {
        if INSIDE.fetch_add(1, Ordering::SeqCst) != 0 {
            OVERLAPS.fetch_add(1, Ordering::SeqCst);
        }
        if YIELD.load(Ordering::Relaxed) {
            std::thread::yield_now();
        }
        Section
    }
}
impl Drop for Section {
    fn drop(&mut self) {
        INSIDE.fetch_sub(1, Ordering::SeqCst);
    }
}

#[derive(Debug)]
struct Inst {
    serial: u64,
    ty: &'static str,
    lang: String,
    arg: String,
}

/// `fails`: number of leading failing attempts for this (type, lang, args); 9 = always
fn construct_common(ty: &'static str, lang: LanguageIdentifier, arg: String, fails: u32) -> Result<Inst, String> {
    let _s = Section::enter();
    let lang = lang.to_string();
    let mut g = world_lock();
    let w = g.as_mut().unwrap();
    let k = {
        let e = w.attempts.entry((ty, lang.clone(), arg.clone())).or_insert(0);
        let k = *e;
        *e += 1;
        k
    };
    if fails == 9 || k < fails {
        let err = format!("{}/{}/{}/{}", ty, lang, arg, k);
        w.log.push(EventRec { ty, lang, arg, res: Err(err.clone()) });
        Err(err)
    } else {
        let serial = w.serial;
        w.serial += 1;
        w.log.push(EventRec { ty, lang: lang.clone(), arg: arg.clone(), res: Ok(serial) });
        Ok(Inst { serial, ty, lang, arg })
    }
}

struct FmtB(Inst);
struct FmtF(Inst);

/// The formatter types A and C: two DISTINCT types with the SAME `Args` type - a cache keyed by the argument type (or one
/// that lets kinds with equal arguments share a table) conflates them - and, being declared under the same name in two
/// closures of one function, with the same `std::any::type_name` (`…::twin_ops::{{closure}}::Fmt`): only their `TypeId`s
/// tell them apart.  All uses go through the function pointers handed out here.
type TwinSeq = fn(&SeqMemo, String, u32) -> Result<String, String>;
type TwinConc = fn(&ConcMemo, String, u32) -> Result<String, String>;
struct TwinOps {
    seq: TwinSeq,
    seq_kind: TwinSeq,
    conc: TwinConc,
    conc_kind: TwinConc,
    type_name: &'static str,
}

fn twin_ops() -> (TwinOps, TwinOps) {
    let a = || -> TwinOps {
        struct Fmt(Inst);
        impl Memoizable for Fmt {
            type Args = (String,);
            type Error = String;
            fn construct(lang: LanguageIdentifier, args: Self::Args) -> Result<Self, Self::Error> {
                construct_common("A", lang, hex(&args.0), 0).map(Fmt)
            }
        }
        TwinOps {
            seq: |m, s, x| m.with_try_get::<Fmt, _, _>((s,), |f| callback(&f.0, x)),
            seq_kind: |m, s, x| m.with_try_get_threadsafe::<Fmt, _, _>((s,), |f| callback(&f.0, x)),
            conc: |m, s, x| m.with_try_get::<Fmt, _, _>((s,), |f| callback(&f.0, x)),
            conc_kind: |m, s, x| m.with_try_get_threadsafe::<Fmt, _, _>((s,), |f| callback(&f.0, x)),
            type_name: std::any::type_name::<Fmt>(),
        }
    };
    let c = || -> TwinOps {
        struct Fmt(Inst);
        impl Memoizable for Fmt {
            type Args = (String,);
            type Error = String;
            fn construct(lang: LanguageIdentifier, args: Self::Args) -> Result<Self, Self::Error> {
                construct_common("C", lang, hex(&args.0), 0).map(Fmt)
            }
        }
        TwinOps {
            seq: |m, s, x| m.with_try_get::<Fmt, _, _>((s,), |f| callback(&f.0, x)),
            seq_kind: |m, s, x| m.with_try_get_threadsafe::<Fmt, _, _>((s,), |f| callback(&f.0, x)),
            conc: |m, s, x| m.with_try_get::<Fmt, _, _>((s,), |f| callback(&f.0, x)),
            conc_kind: |m, s, x| m.with_try_get_threadsafe::<Fmt, _, _>((s,), |f| callback(&f.0, x)),
            type_name: std::any::type_name::<Fmt>(),
        }
    };
    (a(), c())
}


/// arguments whose `Hash` is deliberately weak (length only) while `Eq` compares everything: a memoizer that
/// keys its cache by the hash alone, or compares only part of the arguments, conflates distinct keys of type B
#[derive(Clone, PartialEq, Eq)]
struct WeakHashArgs(String);

impl std::hash::Hash for WeakHashArgs {
    fn hash<H: std::hash::Hasher>(&self, h: &mut H) {
        self.0.len().hash(h)
    }
}

impl Memoizable for FmtB {
    type Args = (WeakHashArgs,);
    type Error = String;
    fn construct(lang: LanguageIdentifier, args: Self::Args) -> Result<Self, Self::Error> {
        construct_common("B", lang, hex(&(args.0).0), 0).map(FmtB)
    }
}

impl Memoizable for FmtF {
    type Args = (String, u32);
    type Error = String;
    fn construct(lang: LanguageIdentifier, args: Self::Args) -> Result<Self, Self::Error> {
        construct_common("F", lang, format!("{}.{}", hex(&args.0), args.1), args.1).map(FmtF)
    }
}

fn hex(s: &str) -> String {
    fvh::util::hex_enc(s.as_bytes())
}

/// x == 666: the callback panics (single-thread memoizer only; the panic is caught by the caller and printed as
/// `CBPANIC`) - a formatter that was constructed for this lookup must nevertheless stay cached
pub const CB_PANIC: u32 = 666;

/// x == 777: the callback asks the per-language table for the memoizer of ITS OWN language (`get_for_lang`) while
/// the lookup is still active on that memoizer (single-thread memoizer, handles obtained through `get_for_lang`
/// only): it must be handed the memoizer it is running on ("shared while in use")
pub const CB_REENTER: u32 = 777;

/// x == 778: the callback does a lookup of the fixed key C "zz" on ANOTHER memoizer (the live handle with the largest
/// index below the one the lookup runs on) and appends its outcome: memoizers are independent of each other
pub const CB_NESTED: u32 = 778;

thread_local! {
    static PARTNER: RefCell<Option<Handle>> = RefCell::new(None);
}

thread_local! {
    /// (the process's IntlMemoizer, the language and the handle the current lookup runs on)
    static REENTER: RefCell<Option<(*mut IntlMemoizer, LanguageIdentifier, Rc<SeqMemo>)>> = RefCell::new(None);
}

fn callback(i: &Inst, x: u32) -> String {
    let _s = Section::enter();
    if x == CB_PANIC {
        panic!("callback panic");
    }
    if x == CB_NESTED {
        let partner = PARTNER.with(|p| p.borrow_mut().take());
        let inner = Lookup { key: Key::C("zz".to_string()), x: 0, via_kind: false };
        let r = match &partner {
            Some(Handle::Seq(m)) => lookup_seq(m, &inner),
            Some(Handle::Conc(m)) => lookup_conc(m, &inner),
            None => Err("no-partner".to_string()),
        };
        return format!("{}/{}/{}/{}/{}+inner={}", i.serial, i.ty, i.lang, i.arg, x, show_outcome(&r));
    }
    if x == CB_REENTER {
        let ctx = REENTER.with(|r| r.borrow_mut().take());
        if let Some((outer, lang, handle)) = ctx {
            // SAFETY: single thread; `run_seq` owns the IntlMemoizer and does not touch it during a lookup
            let again = unsafe { (*outer).get_for_lang(lang) };
            let same = Rc::ptr_eq(&again, &handle);
            return format!("{}/{}/{}/{}/{}+{}", i.serial, i.ty, i.lang, i.arg, x, if same { "same" } else { "OTHER-MEMOIZER" });
        }
        return format!("{}/{}/{}/{}/{}+no-context", i.serial, i.ty, i.lang, i.arg, x);
    }
    format!("{}/{}/{}/{}/{}", i.serial, i.ty, i.lang, i.arg, x)
}

// ---------------------------------------------------------------------------------------------
// parsing

#[derive(Clone)]
enum Key {
    A(String),
    B(String),
    C(String),
    F(String, u32),
}

#[derive(Clone)]
struct Lookup {
    key: Key,
    x: u32,
    via_kind: bool,
}

fn canon_u32(s: &str) -> Option<u32> {
    let n: u32 = s.parse().ok()?;
    if n.to_string() == s {
        Some(n)
    } else {
        None
    }
}

fn parse_lang(l: &str) -> Option<LanguageIdentifier> {
    // (the two-letter tail: enough distinct languages for histories that fill the per-language table)
    if !["en", "en-US", "pl", "fr-CA", "de", "und", "ca", "ca-valencia", "de-1901", "de-1996", "aa", "ab", "af", "ak", "am", "an", "ar", "as", "az", "be", "bg", "bm", "bn", "bo", "br", "bs", "cs", "cy", "da", "dz", "ee", "el", "eo", "es", "et", "eu", "fa", "ff", "fi", "fo"].contains(&l) {
        return None;
    }
    let id: LanguageIdentifier = l.parse().ok()?;
    if id.to_string() == l {
        Some(id)
    } else {
        None
    }
}

fn parse_lookup(ty: &str, arg: &str, x: &str, via: &str) -> Option<Lookup> {
    let key = match ty {
        "A" => Key::A(fvh::util::hex_str(arg)?),
        "B" => Key::B(fvh::util::hex_str(arg)?),
        "C" => Key::C(fvh::util::hex_str(arg)?),
        "F" => {
            let (h, n) = arg.split_once('.')?;
            if n.len() != 1 {
                return None;
            }
            Key::F(fvh::util::hex_str(h)?, canon_u32(n)?)
        }
        _ => return None,
    };
    let via_kind = match via {
        "d" => false,
        "k" => true,
        _ => return None,
    };
    Some(Lookup { key, x: canon_u32(x)?, via_kind })
}

// ---------------------------------------------------------------------------------------------
// one lookup against either memoizer, directly or through fluent_bundle's `MemoizerKind`

fn lookup_seq(m: &SeqMemo, l: &Lookup) -> Result<String, String> {
    let x = l.x;
    match (&l.key, l.via_kind) {
        (Key::A(s), false) => (twin_ops().0.seq)(m, s.clone(), x),
        (Key::B(s), false) => m.with_try_get::<FmtB, _, _>((WeakHashArgs(s.clone()),), |f| callback(&f.0, x)),
        (Key::F(s, n), false) => m.with_try_get::<FmtF, _, _>((s.clone(), *n), |f| callback(&f.0, x)),
        (Key::C(s), false) => (twin_ops().1.seq)(m, s.clone(), x),
        (Key::C(s), true) => (twin_ops().1.seq_kind)(m, s.clone(), x),
        (Key::A(s), true) => (twin_ops().0.seq_kind)(m, s.clone(), x),
        (Key::B(s), true) => m.with_try_get_threadsafe::<FmtB, _, _>((WeakHashArgs(s.clone()),), |f| callback(&f.0, x)),
        (Key::F(s, n), true) => {
            m.with_try_get_threadsafe::<FmtF, _, _>((s.clone(), *n), |f| callback(&f.0, x))
        }
    }
}

fn lookup_conc(m: &ConcMemo, l: &Lookup) -> Result<String, String> {
    let x = l.x;
    match (&l.key, l.via_kind) {
        (Key::A(s), false) => (twin_ops().0.conc)(m, s.clone(), x),
        (Key::B(s), false) => m.with_try_get::<FmtB, _, _>((WeakHashArgs(s.clone()),), |f| callback(&f.0, x)),
        (Key::F(s, n), false) => m.with_try_get::<FmtF, _, _>((s.clone(), *n), |f| callback(&f.0, x)),
        (Key::C(s), false) => (twin_ops().1.conc)(m, s.clone(), x),
        (Key::C(s), true) => (twin_ops().1.conc_kind)(m, s.clone(), x),
        (Key::A(s), true) => (twin_ops().0.conc_kind)(m, s.clone(), x),
        (Key::B(s), true) => m.with_try_get_threadsafe::<FmtB, _, _>((WeakHashArgs(s.clone()),), |f| callback(&f.0, x)),
        (Key::F(s, n), true) => {
            m.with_try_get_threadsafe::<FmtF, _, _>((s.clone(), *n), |f| callback(&f.0, x))
        }
    }
}

fn show_event(e: &EventRec) -> String {
    format!(
        "{}/{}/{}={}",
        e.ty,
        e.lang,
        e.arg,
        match &e.res {
            Ok(s) => s.to_string(),
            Err(er) => format!("!{}", er),
        }
    )
}

fn show_outcome(r: &Result<String, String>) -> String {
    match r {
        Ok(s) => format!("ok:{}", s),
        Err(e) => format!("err:{}", e),
    }
}

/// events logged since `from`
fn events_since(from: usize) -> (usize, Vec<String>) {
    let g = world_lock();
    let w = g.as_ref().unwrap();
    (w.log.len(), w.log[from..].iter().map(show_event).collect())
}

// ---------------------------------------------------------------------------------------------
// sequential histories

enum Handle {
    Seq(Rc<SeqMemo>),
    Conc(Arc<ConcMemo>),
}

impl Handle {
    fn same(&self, other: &Handle) -> bool {
        match (self, other) {
            (Handle::Seq(a), Handle::Seq(b)) => Rc::ptr_eq(a, b),
            (Handle::Conc(a), Handle::Conc(b)) => Arc::ptr_eq(a, b),
            _ => false,
        }
    }
}

fn run_seq(conc: bool, body: &str) -> String {
    reset_world(false);
    let mut memoizer = IntlMemoizer::default();
    // every handle ever handed out, with its identity class; None once dropped
    let mut handles: Vec<Option<(Handle, usize)>> = vec![];
    // per handle: was it handed out by get_for_lang (and for which language)?
    let mut origin: Vec<Option<LanguageIdentifier>> = vec![];
    let mut next_class = 0usize;
    let mut seen = 0usize;
    let mut outs: Vec<String> = vec![];
    for op in body.split(';') {
        let p: Vec<&str> = op.split(':').collect();
        let o = match p.as_slice() {
            ["lang", l] | ["new", l] => {
                let is_get = p[0] == "lang";
                match parse_lang(l) {
                    Some(id) if !(is_get && conc) => {
                        origin.push(if is_get { Some(id.clone()) } else { None });
                        let h = if conc {
                            Handle::Conc(Arc::new(<ConcMemo as MemoizerKind>::new(id)))
                        } else if is_get {
                            Handle::Seq(memoizer.get_for_lang(id))
                        } else if handles.len() % 2 == 0 {
                            Handle::Seq(Rc::new(SeqMemo::new(id)))
                        } else {
                            Handle::Seq(Rc::new(<SeqMemo as MemoizerKind>::new(id)))
                        };
                        // identity class: that of a live handle to the same allocation, else a new class
                        let class = handles
                            .iter()
                            .flatten()
                            .find(|(live, _)| live.same(&h))
                            .map(|(_, c)| *c)
                            .unwrap_or_else(|| {
                                next_class += 1;
                                next_class - 1
                            });
                        let strong = match &h {
                            Handle::Seq(rc) => Rc::strong_count(rc),
                            Handle::Conc(arc) => Arc::strong_count(arc),
                        };
                        handles.push(Some((h, class)));
                        format!("h{}=m{}/s{}", handles.len() - 1, class, strong)
                    }
                    _ => "bad-op".to_string(),
                }
            }
            ["drop", h] => match canon_u32(h) {
                Some(h) => match handles.get_mut(h as usize) {
                    Some(slot @ Some(_)) => {
                        *slot = None; // drops the Rc / Arc
                        "ok".to_string()
                    }
                    _ => "dead".to_string(),
                },
                None => "bad-op".to_string(),
            },
            ["get", h, ty, arg, x, via] => match (canon_u32(h), parse_lookup(ty, arg, x, via)) {
                (Some(h), Some(l)) if l.x == CB_REENTER && (conc || origin.get(h as usize).cloned().flatten().is_none()) => {
                    let _ = (h, l);
                    "bad-op".to_string() // the re-entrant callback is only defined for handles from get_for_lang
                }
                (Some(h), Some(l)) if l.x == CB_NESTED => {
                    // partner = the live handle with the largest index below h
                    let own_class = match handles.get(h as usize) {
                        Some(Some((_, c))) => Some(*c),
                        _ => None,
                    };
                    // (a DIFFERENT memoizer object: handles of one language share the allocation)
                    let partner = (0..h as usize).rev().find_map(|j| match handles.get(j) {
                        Some(Some((_, c))) if Some(*c) == own_class => None,
                        Some(Some((hd, _))) => Some(match hd {
                            Handle::Seq(m) => Handle::Seq(m.clone()),
                            Handle::Conc(m) => Handle::Conc(m.clone()),
                        }),
                        _ => None,
                    });
                    match (partner, handles.get(h as usize)) {
                        (None, _) => "bad-op".to_string(),
                        (Some(p), Some(Some((hd, _)))) => {
                            PARTNER.with(|c| *c.borrow_mut() = Some(p));
                            let r = match hd {
                                Handle::Seq(m) => lookup_seq(m, &l),
                                Handle::Conc(m) => lookup_conc(m, &l),
                            };
                            PARTNER.with(|c| *c.borrow_mut() = None);
                            let (n, evs) = events_since(seen);
                            seen = n;
                            format!("{}>{}", evs.join(","), show_outcome(&r))
                        }
                        (Some(_), _) => "dead".to_string(),
                    }
                }
                (Some(h), Some(l)) => match handles.get(h as usize) {
                    Some(Some((hd, _))) => {
                        if l.x == CB_PANIC && matches!(hd, Handle::Conc(_)) {
                            outs.push("bad-op".to_string());
                            continue;
                        }
                        if l.x == CB_REENTER {
                            match (hd, origin.get(h as usize).cloned().flatten()) {
                                (Handle::Seq(m), Some(lang)) => {
                                    let outer: *mut IntlMemoizer = &mut memoizer;
                                    REENTER.with(|r| *r.borrow_mut() = Some((outer, lang, m.clone())));
                                }
                                _ => {
                                    outs.push("bad-op".to_string());
                                    continue;
                                }
                            }
                        }
                        let r = match hd {
                            Handle::Seq(m) if l.x == CB_PANIC => {
                                match std::panic::catch_unwind(std::panic::AssertUnwindSafe(|| lookup_seq(m, &l))) {
                                    Ok(r) => r,
                                    Err(_) => Ok("CBPANIC".to_string()),
                                }
                            }
                            Handle::Seq(m) => lookup_seq(m, &l),
                            Handle::Conc(m) => lookup_conc(m, &l),
                        };
                        // a failed construction never runs the callback: do not keep the handle clone alive
                        REENTER.with(|r| *r.borrow_mut() = None);
                        let (n, evs) = events_since(seen);
                        seen = n;
                        format!("{}>{}", evs.join(","), show_outcome(&r))
                    }
                    _ => "dead".to_string(),
                },
                _ => "bad-op".to_string(),
            },
            _ => "bad-op".to_string(),
        };
        outs.push(o);
    }
    outs.join(";")
}

// ---------------------------------------------------------------------------------------------
// real threads

fn run_conc(lang: &str, _sched: &str, progs: &str) -> String {
    let id = match parse_lang(lang) {
        Some(id) => id,
        None => return "bad-case".to_string(),
    };
    let mut ps: Vec<Vec<Lookup>> = vec![];
    for p in progs.split('|') {
        if p == "-" {
            ps.push(vec![]);
            continue;
        }
        let mut v = vec![];
        for o in p.split(',') {
            let f: Vec<&str> = o.split(':').collect();
            match f.as_slice() {
                [ty, arg, x, via] => match parse_lookup(ty, arg, x, via) {
                    Some(l) => v.push(l),
                    None => return "bad-case".to_string(),
                },
                _ => return "bad-case".to_string(),
            }
        }
        ps.push(v);
    }
    if ps.len() > 8 {
        return "bad-case".to_string();
    }
    reset_world(true);
    let memo = Arc::new(ConcMemo::new(id)); // cold
    let barrier = Arc::new(Barrier::new(ps.len()));
    let mut joins = vec![];
    for prog in ps.into_iter() {
        let memo = Arc::clone(&memo);
        let barrier = Arc::clone(&barrier);
        joins.push(std::thread::spawn(move || {
            barrier.wait();
            prog.iter()
                .map(|l| show_outcome(&lookup_conc(&memo, l)))
                .collect::<Vec<String>>()
        }));
    }
    let mut per_thread = vec![];
    for j in joins {
        match j.join() {
            Ok(v) => per_thread.push(v.join(",")),
            Err(_) => per_thread.push("THREAD-PANIC".to_string()),
        }
    }
    let (_, evs) = events_since(0);
    format!(
        "{}#{}#ovl={}",
        per_thread.join("|"),
        evs.join(","),
        OVERLAPS.load(Ordering::SeqCst)
    )
}

fn run(payload: &str) -> String {
    let (mode, body) = payload.split_once(' ').unwrap_or((payload, ""));
    match mode {
        "seq" => run_seq(false, body),
        "cseq" => run_seq(true, body),
        "conc" => {
            let f: Vec<&str> = body.split(' ').collect();
            match f.as_slice() {
                [lang, sched, progs] => run_conc(lang, sched, progs),
                _ => "bad-case".to_string(),
            }
        }
        _ => "bad-case".to_string(),
    }
}

fn main() {
    let (a, c) = twin_ops();
    if a.type_name != c.type_name {
        // (the harness still works; it just no longer exercises two types that share a name)
        eprintln!("fvh_memo: the twin formatter types have different type names: {} / {}", a.type_name, c.type_name);
    }
    fvh::run_main(run);
}
