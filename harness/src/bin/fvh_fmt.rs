//! area `fmt`: see lean/FluentModel/Drv/FmtDrv.lean for the case-line format.
//! Builds a real FluentBundle (single-thread or concurrent flavour) from the resources, registers
//! the harness's function library, and answers every request through `format_pattern` and
//! `write_pattern`.
use fluent_bundle::bundle::FluentBundle as RawBundle;
use fluent_bundle::memoizer::MemoizerKind;
use fluent_bundle::resolver::errors::{ReferenceKind, ResolverError};
use fluent_bundle::types::{FluentNumberType, FluentType};
use fluent_bundle::{FluentArgs, FluentError, FluentResource, FluentValue};
use fvh::util::*;
use std::borrow::Cow;
use unic_langid::LanguageIdentifier;

fn canon_value(v: &FluentValue) -> String {
    match v {
        FluentValue::String(s) => format!("s:{}", s),
        FluentValue::Number(n) => format!(
            "n:{}/{}/{}",
            n.as_string(),
            match n.options.minimum_fraction_digits {
                Some(m) => m.to_string(),
                None => "-".to_string(),
            },
            match n.options.r#type {
                FluentNumberType::Cardinal => "c",
                FluentNumberType::Ordinal => "o",
            }
        ),
        FluentValue::Custom(c) => match c.as_any().downcast_ref::<Custom>() {
            Some(c) => format!("c:{}", c.0),
            None => match c.as_any().downcast_ref::<MemoCustom>() {
                Some(c) => format!("c:memo:{}", c.0),
                None => "c:?".to_string(),
            },
        },
        FluentValue::None => "z".to_string(),
        FluentValue::Error => "e".to_string(),
    }
}

#[allow(non_snake_case)]
fn ARGS<'a>(pos: &[FluentValue<'a>], named: &FluentArgs) -> FluentValue<'a> {
    let p: Vec<String> = pos.iter().map(canon_value).collect();
    let n: Vec<String> = named
        .iter()
        .map(|(k, v)| format!("{}={}", k, canon_value(v)))
        .collect();
    FluentValue::String(format!("({};{})", p.join(","), n.join(",")).into())
}
#[allow(non_snake_case)]
fn IDENT<'a>(pos: &[FluentValue<'a>], _: &FluentArgs) -> FluentValue<'a> {
    match pos.first() {
        Some(v) => v.clone(),
        None => FluentValue::Error,
    }
}
#[allow(non_snake_case)]
fn FAIL<'a>(_: &[FluentValue<'a>], _: &FluentArgs) -> FluentValue<'a> {
    FluentValue::Error
}
#[allow(non_snake_case)]
fn NONE<'a>(_: &[FluentValue<'a>], _: &FluentArgs) -> FluentValue<'a> {
    FluentValue::None
}
#[allow(non_snake_case)]
fn CUSTOM<'a>(pos: &[FluentValue<'a>], _: &FluentArgs) -> FluentValue<'a> {
    match pos.first() {
        Some(FluentValue::String(s)) => FluentValue::Custom(Box::new(Custom(s.to_string()))),
        _ => FluentValue::Custom(Box::new(Custom("c".to_string()))),
    }
}

fn tr_upper(s: &str) -> Cow<str> {
    s.to_ascii_uppercase().into()
}

fn tr_bracket(s: &str) -> Cow<str> {
    format!("[{}]", s).into()
}

fn tr_pseudo(s: &str) -> Cow<str> {
    fluent_pseudo::transform(s, false, true)
}

fn fm_numbr<M>(v: &FluentValue, _: &M) -> Option<String> {
    match v {
        FluentValue::Number(n) => Some(format!("[{}]", n.as_string())),
        _ => None,
    }
}
fn fm_strwrap<M>(v: &FluentValue, _: &M) -> Option<String> {
    match v {
        FluentValue::String(s) => Some(format!("<{}>", s)),
        _ => None,
    }
}

fn err_str(e: &FluentError) -> String {
    match e {
        FluentError::ResolverError(r) => match r {
            ResolverError::Reference(k) => match k {
                ReferenceKind::Function { id } => format!("Ref:fn:{}", hex_enc(id.as_bytes())),
                ReferenceKind::Message { id, attribute } => format!(
                    "Ref:msg:{}:{}",
                    hex_enc(id.as_bytes()),
                    attribute
                        .as_ref()
                        .map(|a| hex_enc(a.as_bytes()))
                        .unwrap_or("~".into())
                ),
                ReferenceKind::Term { id, attribute } => format!(
                    "Ref:term:{}:{}",
                    hex_enc(id.as_bytes()),
                    attribute
                        .as_ref()
                        .map(|a| hex_enc(a.as_bytes()))
                        .unwrap_or("~".into())
                ),
                ReferenceKind::Variable { id } => format!("Ref:var:{}", hex_enc(id.as_bytes())),
            },
            ResolverError::NoValue(id) => format!("NoValue:{}", hex_enc(id.as_bytes())),
            ResolverError::MissingDefault => "MissingDefault".into(),
            ResolverError::Cyclic => "Cyclic".into(),
            ResolverError::TooManyPlaceables => "TooMany".into(),
        },
        other => format!("Other:{:?}", other).replace(' ', "_"),
    }
}

fn errs_str(es: &[FluentError]) -> String {
    let v: Vec<String> = es.iter().map(err_str).collect();
    format!("[{}]", v.join(" "))
}

fn kv<'a>(cfg: &'a str, key: &str) -> &'a str {
    for p in cfg.split(';') {
        if let Some((k, v)) = p.split_once('=') {
            if k == key {
                return v;
            }
        }
    }
    ""
}

type ConcBundle = RawBundle<FluentResource, intl_memoizer::concurrent::IntlLangMemoizer>;

/// C15 `pool=1`: the shared bundle lives in ONE place for the whole process (a later bundle replaces the earlier
/// one in place, at the same address) and the worker threads are long-lived, so anything a thread or the
/// memoizer remembers across bundles (thread-locals, address-keyed caches) is exercised.
static SLOT: std::sync::RwLock<Option<ConcBundle>> = std::sync::RwLock::new(None);

struct Job {
    reqs: std::sync::Arc<Vec<Req>>,
    t: usize,
    barrier: std::sync::Arc<std::sync::Barrier>,
    resp: std::sync::mpsc::Sender<(usize, Vec<String>)>,
}

const POOL_SIZE: usize = 8;

fn pool() -> &'static Vec<std::sync::Mutex<std::sync::mpsc::Sender<Job>>> {
    static POOL: std::sync::OnceLock<Vec<std::sync::Mutex<std::sync::mpsc::Sender<Job>>>> = std::sync::OnceLock::new();
    POOL.get_or_init(|| {
        (0..POOL_SIZE)
            .map(|_| {
                let (tx, rx) = std::sync::mpsc::channel::<Job>();
                std::thread::Builder::new()
                    .stack_size(8 << 20)
                    .spawn(move || {
                        while let Ok(job) = rx.recv() {
                            let n = job.reqs.len();
                            job.barrier.wait();
                            let out = std::panic::catch_unwind(std::panic::AssertUnwindSafe(|| {
                                let guard = SLOT.read().unwrap_or_else(|e| e.into_inner());
                                let mut out = vec![String::new(); n];
                                if let Some(b) = guard.as_ref() {
                                    for k in 0..n {
                                        let i = (k + job.t * 3) % n;
                                        out[i] = answer(b, &job.reqs[i], None);
                                    }
                                }
                                out
                            }))
                            .unwrap_or_else(|_| vec!["PANIC thread".to_string(); n]);
                            let _ = job.resp.send((job.t, out));
                        }
                    })
                    .unwrap();
                std::sync::Mutex::new(tx)
            })
            .collect()
    })
}

fn run_pooled(b: ConcBundle, reqs: Vec<Req>, threads: usize) -> Vec<String> {
    let threads = threads.min(POOL_SIZE);
    let n = reqs.len();
    *SLOT.write().unwrap_or_else(|e| e.into_inner()) = Some(b);
    let reqs = std::sync::Arc::new(reqs);
    let barrier = std::sync::Arc::new(std::sync::Barrier::new(threads));
    let (tx, rx) = std::sync::mpsc::channel();
    for t in 0..threads {
        let job = Job { reqs: reqs.clone(), t, barrier: barrier.clone(), resp: tx.clone() };
        let _ = pool()[t].lock().unwrap_or_else(|e| e.into_inner()).send(job);
    }
    drop(tx);
    let mut results: Vec<Vec<String>> = vec![vec!["MISSING thread".to_string(); n]; threads];
    for _ in 0..threads {
        if let Ok((t, out)) = rx.recv() {
            results[t] = out;
        }
    }
    let mut outs = results[0].clone();
    for (t, r) in results.iter().enumerate().skip(1) {
        for i in 0..n {
            if r[i] != results[0][i] {
                outs[i] = format!("{} THREADS-DISAGREE(thread {}: {})", outs[i], t, r[i]);
            }
        }
    }
    outs
}

struct Req {
    id: String,
    attr: Option<String>,
    args: Option<Vec<(String, Tok)>>,
}

fn parse_req(rq: &str) -> Option<Req> {
    let p: Vec<&str> = rq.split(':').collect();
    if p.len() != 3 {
        return None;
    }
    let args = match p[2] {
        "~" => None,
        "." => Some(vec![]),
        s => Some(
            s.split('&')
                .map(|kv| {
                    let (k, v) = kv.split_once('=')?;
                    Some((hex_str(k)?, parse_tok(v)?))
                })
                .collect::<Option<Vec<_>>>()?,
        ),
    };
    Some(Req {
        id: hex_str(p[0])?,
        attr: if p[1] == "~" {
            None
        } else {
            Some(hex_str(p[1])?)
        },
        args,
    })
}

/// a writer that gives up after `left` bytes (a fixed-capacity buffer, a closed pipe)
struct Limited {
    left: usize,
}
impl std::fmt::Write for Limited {
    fn write_str(&mut self, s: &str) -> std::fmt::Result {
        if s.len() > self.left {
            self.left = 0;
            return Err(std::fmt::Error);
        }
        self.left -= s.len();
        Ok(())
    }
}

/// C08 `pre=1`, part 3: the request written to writers that FAIL after 0..=12 bytes (wherever the resolver happens to be:
/// inside a reference, a term, a variant).  A failed write is over when it returns; it must leave nothing behind.
fn failing_writes<M: MemoizerKind>(bundle: &RawBundle<FluentResource, M>, rq: &Req) {
    let msg = match bundle.get_message(&rq.id) {
        Some(m) => m,
        None => return,
    };
    let pattern = match &rq.attr {
        None => match msg.value() {
            Some(p) => p,
            None => return,
        },
        Some(a) => match msg.get_attribute(a) {
            Some(at) => at.value(),
            None => return,
        },
    };
    let args: Option<FluentArgs> = rq.args.as_ref().map(|ps| {
        let mut a = FluentArgs::new();
        for (k, t) in ps {
            a.set(k.as_str(), tok_value(t));
        }
        a
    });
    for cap in 0..=12usize {
        let mut w = Limited { left: cap };
        let mut errs = vec![];
        let _ = bundle.write_pattern(&mut w, pattern, args.as_ref(), &mut errs);
    }
}

fn answer<M: MemoizerKind>(
    bundle: &RawBundle<FluentResource, M>,
    rq: &Req,
    shared: Option<&mut Vec<FluentError>>,
) -> String {
    let msg = match bundle.get_message(&rq.id) {
        Some(m) => m,
        None => return "nomsg".into(),
    };
    let pattern = match &rq.attr {
        None => match msg.value() {
            Some(p) => p,
            None => return "novalue".into(),
        },
        Some(a) => match msg.get_attribute(a) {
            Some(at) => at.value(),
            None => return "noattr".into(),
        },
    };
    let args: Option<FluentArgs> = rq.args.as_ref().map(|ps| {
        let mut a = FluentArgs::new();
        for (k, t) in ps {
            a.set(k.as_str(), tok_value(t));
        }
        a
    });
    // C08 ("however the arguments were inserted"): the same pair sequence through `collect()` must give the same
    // argument set as the sequence of `set` calls (later pairs win)
    if let Some(ps) = &rq.args {
        let collected: FluentArgs = ps.iter().map(|(k, t)| (k.as_str(), tok_value(t))).collect();
        let show = |a: &FluentArgs| -> Vec<String> { a.iter().map(|(k, v)| format!("{}={}", k, canon_value(v))).collect() };
        if let Some(a) = &args {
            if show(a) != show(&collected) {
                return format!("T - [] W - [] ARGS-COLLECT-DISAGREE(set={:?} collect={:?})", show(a), show(&collected));
            }
        }
    }
    // C08 (the result is a function of the argument SET): an argument the pattern cannot refer to (`!` is no identifier
    // character) inserted into the SAME FluentArgs object after a first call, at the front of the sorted list, changes
    // nothing - whatever a lookup may have remembered about the object
    if let Some(ps) = &rq.args {
        let mut a = FluentArgs::new();
        for (k, t) in ps {
            a.set(k.as_str(), tok_value(t));
        }
        let mut e1 = vec![];
        let t1 = bundle.format_pattern(pattern, Some(&a), &mut e1).into_owned();
        a.set("!unrelated", 7);
        let mut e2 = vec![];
        let t2 = bundle.format_pattern(pattern, Some(&a), &mut e2).into_owned();
        if t1 != t2 || errs_str(&e1) != errs_str(&e2) {
            return format!("T - [] W - [] ARGS-INSERT-DISAGREE(before {:?} {} / after inserting an unrelated argument {:?} {})", t1, errs_str(&e1), t2, errs_str(&e2)).replace(';', ",");
        }
    }
    // C08: the three stringification paths of a value (`write`, `as_string`, `into_string`) agree, with and
    // without a formatter; `FluentValue` equality is reflexive on strings, numbers and custom values
    let mut stringify = String::new();
    if let Some(ps) = &rq.args {
        let scope = fluent_bundle::resolver::Scope::new(bundle, None, None);
        for (k, t) in ps {
            let v = tok_value(t);
            let mut w = String::new();
            let _ = v.write(&mut w, &scope);
            let a = v.as_string(&scope).into_owned();
            let i = v.clone().into_string(&scope).into_owned();
            if w != a || a != i {
                stringify.push_str(&format!(" STRINGIFY-DISAGREE({}: write={:?} as_string={:?} into_string={:?})", k, w, a, i));
            }
            let reflexive = match &v {
                FluentValue::Number(n) if n.value.is_nan() => true,
                FluentValue::String(_) | FluentValue::Number(_) | FluentValue::Custom(_) => v == v.clone(),
                _ => true,
            };
            if !reflexive {
                stringify.push_str(&format!(" VALUE-EQ-NOT-REFLEXIVE({})", k));
            }
        }
    }
    if !stringify.is_empty() {
        return format!("T - [] W - []{}", stringify);
    }
    if let Some(sh) = shared {
        // C08 (ev=shared): the caller re-uses ONE error list for the whole history; a call may only append
        let before: Vec<FluentError> = sh.clone();
        let t = bundle.format_pattern(pattern, args.as_ref(), sh).into_owned();
        let mid: Vec<FluentError> = sh.clone();
        let mut w = String::new();
        let _ = bundle.write_pattern(&mut w, pattern, args.as_ref(), sh);
        if mid.len() < before.len() || mid[..before.len()] != before[..] || sh.len() < mid.len() || sh[..mid.len()] != mid[..] {
            return "ERRLIST-PREFIX-CHANGED".into();
        }
        return format!(
            "T {} {} W {} {}",
            hex_enc(t.as_bytes()),
            errs_str(&mid[before.len()..]),
            hex_enc(w.as_bytes()),
            errs_str(&sh[mid.len()..])
        );
    }
    let mut e1 = vec![];
    let t = bundle.format_pattern(pattern, args.as_ref(), &mut e1);
    let mut e2 = vec![];
    let mut w = String::new();
    let _ = bundle.write_pattern(&mut w, pattern, args.as_ref(), &mut e2);
    format!(
        "T {} {} W {} {}",
        hex_enc(t.as_bytes()),
        errs_str(&e1),
        hex_enc(w.as_bytes()),
        errs_str(&e2)
    )
}

fn settings<M: MemoizerKind>(bundle: &mut RawBundle<FluentResource, M>, iso: bool, tr: &str, fm: &str) {
    bundle.set_use_isolating(iso);
    match tr {
        "upper" => bundle.set_transform(Some(tr_upper)),
        "pseudo" => bundle.set_transform(Some(tr_pseudo)),
        "bracket" => bundle.set_transform(Some(tr_bracket)),
        _ => bundle.set_transform(None),
    }
    match fm {
        "numbr" => bundle.set_formatter(Some(fm_numbr::<M>)),
        "strwrap" => bundle.set_formatter(Some(fm_strwrap::<M>)),
        _ => bundle.set_formatter(None),
    }
}

/// C08 `pre=1`: what happened BEFORE must not matter - (1) a bundle of a sibling locale (same language, other
/// region) formats every request first, (2) the bundle under test formats every request once under ANOTHER
/// configuration (isolation flipped, another transform, another formatter) and is then re-configured.
fn sibling(loc: &str) -> String {
    match loc {
        "pt" | "pt-BR" | "pt-AO" => "pt-PT".into(),
        _ => match loc.split_once('-') {
            Some((l, _)) => l.to_string(),
            None => format!("{}-ZZ", loc),
        },
    }
}

fn other_settings<M: MemoizerKind>(bundle: &mut RawBundle<FluentResource, M>, cfg: &str) {
    let tr = if kv(cfg, "tr") == "upper" { "bracket" } else { "upper" };
    let fm = if kv(cfg, "fm") == "numbr" { "strwrap" } else { "numbr" };
    settings(bundle, kv(cfg, "iso") != "1", tr, fm);
}

fn configure<M: MemoizerKind>(
    bundle: &mut RawBundle<FluentResource, M>,
    cfg: &str,
    ress: &str,
    fns: &str,
) -> Option<()> {
    settings(bundle, kv(cfg, "iso") == "1", kv(cfg, "tr"), kv(cfg, "fm"));
    if fns != "-" {
        for name in fns.split(',') {
            let _ = match name {
                "NUMBER" => bundle.add_builtins(),
                "ARGS" => bundle.add_function("ARGS", ARGS),
                "IDENT" => bundle.add_function("IDENT", IDENT),
                "FAIL" => bundle.add_function("FAIL", FAIL),
                "NONE" => bundle.add_function("NONE", NONE),
                "CUSTOM" => bundle.add_function("CUSTOM", CUSTOM),
                _ => Ok(()),
            };
        }
    }
    if ress != "-" {
        for item in ress.split(',') {
            let (kind, h) = item.split_once(':')?;
            let src = hex_str(h)?;
            let res = match FluentResource::try_new(src) {
                Ok(r) => r,
                Err((r, _)) => r,
            };
            if kind == "o" {
                bundle.add_resource_overriding(res);
            } else {
                let _ = bundle.add_resource(res);
            }
        }
    }
    Some(())
}

fn run_one(payload: &str) -> String {
    let p: Vec<&str> = payload.split(' ').collect();
    if p.len() != 4 {
        return "bad-case".into();
    }
    let (cfg, ress, fns, reqs) = (p[0], p[1], p[2], p[3]);
    // `loc=a+b+c`: the bundle's locale CHAIN; the formatter memoizer (plural rules included) is bound to the first
    // `loc=-` is the EMPTY chain (the memoizer is then created for LanguageIdentifier::default())
    let chain: Result<Vec<LanguageIdentifier>, _> =
        kv(cfg, "loc").split('+').filter(|l| *l != "-").map(|l| l.parse::<LanguageIdentifier>()).collect();
    let chain = match chain {
        Ok(c) => c,
        _ => return "bad-case".into(),
    };
    let reqs: Option<Vec<Req>> = reqs.split(',').map(parse_req).collect();
    let reqs = match reqs {
        Some(r) => r,
        None => return "bad-req".into(),
    };
    let threads: usize = kv(cfg, "th").parse().unwrap_or(1);
    let outs: Vec<String> = if kv(cfg, "fl") == "conc" {
        let mut b: RawBundle<FluentResource, intl_memoizer::concurrent::IntlLangMemoizer> =
            RawBundle::new_concurrent(chain.clone());
        if configure(&mut b, cfg, ress, fns).is_none() {
            return "bad-case".into();
        }
        // warm=<n>: the LAST n requests are issued once by this thread before the others start (so that some
        // formatter kinds are already cached while others are first used concurrently by the threads' first requests)
        let warm: usize = kv(cfg, "warm").parse().unwrap_or(0);
        for r in reqs.iter().rev().take(warm) {
            let _ = answer(&b, r, None);
        }
        if threads > 1 && kv(cfg, "pool") == "1" {
            run_pooled(b, reqs, threads)
        } else if threads > 1 {
            // C15: the bundle is shared by reference; every thread issues every request (in a rotated
            // order) starting from a cold formatter cache, released together by a barrier
            let barrier = std::sync::Barrier::new(threads);
            let n = reqs.len();
            let _ = take_counter_log();
            let results: Vec<Vec<String>> = std::thread::scope(|sc| {
                let handles: Vec<_> = (0..threads)
                    .map(|t| {
                        let b = &b;
                        let reqs = &reqs;
                        let barrier = &barrier;
                        sc.spawn(move || {
                            let mut out = vec![String::new(); n];
                            barrier.wait();
                            for k in 0..n {
                                let i = (k + t * 3) % n;
                                out[i] = answer(b, &reqs[i], None);
                            }
                            out
                        })
                    })
                    .collect();
                handles
                    .into_iter()
                    .map(|h| h.join().unwrap_or_else(|_| vec!["PANIC thread".to_string(); n]))
                    .collect()
            });
            let mut outs = results[0].clone();
            // formatters with per-instance state (`cnt…` tags): ONE instance per tag served all threads, so the numbers it
            // handed out are consecutive (a second instance for the same bundle and arguments repeats numbers)
            for (tag, ks) in take_counter_log() {
                if ks.windows(2).any(|w| w[1] != w[0] + 1) {
                    if let Some(first) = outs.first_mut() {
                        first.push_str(&format!(" THREADS-DISAGREE(the counting formatter {} handed out the numbers {:?}: more than one instance served this bundle)", tag, &ks[..ks.len().min(12)]).replace(';', ","));
                    }
                    break;
                }
            }
            for (t, r) in results.iter().enumerate().skip(1) {
                for i in 0..n {
                    if r[i] != results[0][i] {
                        outs[i] = format!("{} THREADS-DISAGREE(thread {}: {})", outs[i], t, r[i]);
                    }
                }
            }
            outs
        } else if kv(cfg, "duo").parse::<usize>().unwrap_or(0) > 0 {
            // C15 (duo=<rounds>;loc2=<locale>): TWO cold concurrent bundles of different locales make their first
            // requests at the same instant on two threads, again and again with fresh bundles; every round must give
            // what each bundle gives alone (state shared between bundles - process-wide caches - must not leak)
            let rounds: usize = kv(cfg, "duo").parse().unwrap_or(0);
            let chain2: Vec<LanguageIdentifier> = match kv(cfg, "loc2").split('+').map(|l| l.parse::<LanguageIdentifier>()).collect() {
                Ok(c) => c,
                Err(_) => return "bad-case".into(),
            };
            let fresh = |c: &Vec<LanguageIdentifier>| {
                let mut x: RawBundle<FluentResource, intl_memoizer::concurrent::IntlLangMemoizer> = RawBundle::new_concurrent(c.clone());
                let _ = configure(&mut x, cfg, ress, fns);
                x
            };
            let ref1: Vec<String> = reqs.iter().map(|r| answer(&b, r, None)).collect();
            let b2 = fresh(&chain2);
            let ref2: Vec<String> = reqs.iter().map(|r| answer(&b2, r, None)).collect();
            let mut bad: Option<String> = None;
            // the second bundle answers next to a LIVE, warmed-up first bundle: it must give what a single-thread bundle of
            // its own locale gives (the two may share a language - pt / pt-PT - but not their formatters)
            {
                let mut st2: RawBundle<FluentResource, intl_memoizer::IntlLangMemoizer> = RawBundle::new(chain2.clone());
                let _ = configure(&mut st2, cfg, ress, fns);
                let ref2_st: Vec<String> = reqs.iter().map(|r| answer(&st2, r, None)).collect();
                if ref2_st != ref2 {
                    let i = (0..ref2.len()).find(|i| ref2_st.get(*i) != ref2.get(*i)).unwrap_or(0);
                    bad = Some(format!(
                        " DUO-DISAGREE(bundle {} request {}: single-thread bundle {} / concurrent bundle created while the {} bundle is alive {})",
                        kv(cfg, "loc2"), i, ref2_st.get(i).cloned().unwrap_or_default(), kv(cfg, "loc"), ref2.get(i).cloned().unwrap_or_default()
                    ).replace(';', ","));
                }
            }
            for round in 0..rounds {
                if bad.is_some() {
                    break;
                }
                let (x1, x2) = (fresh(&chain), fresh(&chain2));
                let go = std::sync::atomic::AtomicUsize::new(0);
                let run = |x: &RawBundle<FluentResource, intl_memoizer::concurrent::IntlLangMemoizer>| -> Vec<String> {
                    go.fetch_add(1, std::sync::atomic::Ordering::SeqCst);
                    while go.load(std::sync::atomic::Ordering::SeqCst) < 2 {
                        std::hint::spin_loop();
                    }
                    reqs.iter().map(|r| answer(x, r, None)).collect()
                };
                let (o1, o2) = std::thread::scope(|sc| {
                    let h1 = sc.spawn(|| run(&x1));
                    let h2 = sc.spawn(|| run(&x2));
                    (h1.join().unwrap_or_else(|_| vec!["PANIC thread".to_string()]), h2.join().unwrap_or_else(|_| vec!["PANIC thread".to_string()]))
                });
                if o1 != ref1 || o2 != ref2 {
                    let (which, o, r) = if o1 != ref1 { (kv(cfg, "loc"), &o1, &ref1) } else { (kv(cfg, "loc2"), &o2, &ref2) };
                    let i = (0..r.len()).find(|i| o.get(*i) != r.get(*i)).unwrap_or(0);
                    bad = Some(format!(
                        " DUO-DISAGREE(round {} bundle {} request {}: alone {} / next to the other bundle {})",
                        round, which, i, r.get(i).cloned().unwrap_or_default(), o.get(i).cloned().unwrap_or_default()
                    ).replace(';', ","));
                    break;
                }
            }
            let mut outs = ref1;
            if let (Some(m), Some(first)) = (bad, outs.first_mut()) {
                first.push_str(&m);
            }
            outs
        } else {
            let mut shared: Option<Vec<FluentError>> = if kv(cfg, "ev") == "shared" { Some(vec![]) } else { None };
            reqs.iter().map(|r| answer(&b, r, shared.as_mut())).collect()
        }
    } else {
        let pre = kv(cfg, "pre") == "1";
        if pre {
            if let Ok(sl) = sibling(kv(cfg, "loc").split('+').next().unwrap_or("")).parse::<LanguageIdentifier>() {
                let mut sb: RawBundle<FluentResource, intl_memoizer::IntlLangMemoizer> = RawBundle::new(vec![sl]);
                if configure(&mut sb, cfg, ress, fns).is_some() {
                    for r in &reqs {
                        let _ = answer(&sb, r, None);
                    }
                }
            }
        }
        let mut b: RawBundle<FluentResource, intl_memoizer::IntlLangMemoizer> =
            RawBundle::new(chain.clone());
        if configure(&mut b, cfg, ress, fns).is_none() {
            return "bad-case".into();
        }
        if pre {
            other_settings(&mut b, cfg);
            for r in &reqs {
                let _ = answer(&b, r, None);
            }
            settings(&mut b, kv(cfg, "iso") == "1", kv(cfg, "tr"), kv(cfg, "fm"));
            for r in &reqs {
                failing_writes(&b, r);
            }
        }
        let mut shared: Option<Vec<FluentError>> = if kv(cfg, "ev") == "shared" { Some(vec![]) } else { None };
        let outs: Vec<String> = reqs.iter().map(|r| answer(&b, r, shared.as_mut())).collect();
        if kv(cfg, "fw") == "1" {
            // C06 (`fw=1`): the streaming entry point with writers that fail after 0..=12 bytes - wherever the resolver is
            // at that moment (inside a reference, a term, a variant), the call returns; it does not panic
            for r in &reqs {
                failing_writes(&b, r);
            }
        }
        outs
    };
    outs.join(";")
}

/// payload = one bundle case, or several separated by ` | ` (observations joined by ` | `)
fn run(payload: &str) -> String {
    payload
        .split(" | ")
        .map(run_one)
        .collect::<Vec<_>>()
        .join(" | ")
}

fn main() {
    let t = std::thread::Builder::new()
        .stack_size(8 << 20)
        .spawn(|| fvh::run_main(run))
        .unwrap();
    let _ = t.join();
}
