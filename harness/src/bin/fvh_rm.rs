//! area `rm`: ResourceManager request histories over a real temp directory (C19)
//! case format: see lean/FluentModel/Drv/RmDrv.lean
//!
//! Every case gets a fresh directory /tmp/fv_rm_<pid>_<n>/ (removed afterwards).  File opens performed
//! by the manager are observed from inside the process with inotify (IN_OPEN events of regular files in
//! every directory of the tree), so "read at most once" is observed directly, without any hook in /repo.
use fluent_bundle::resolver::errors::{ReferenceKind, ResolverError};
use fluent_bundle::{FluentBundle, FluentError, FluentResource};
use fluent_resmgr::resource_manager::{ResourceManager, ResourceManagerError};
use fluent_syntax::ast;
use fvh::util::*;
use std::borrow::Borrow;
use std::collections::HashMap;
use std::ffi::CString;
use std::fs;
use std::os::raw::{c_char, c_int, c_void};
use std::panic::{catch_unwind, AssertUnwindSafe};
use std::path::{Path, PathBuf};
use std::sync::atomic::{AtomicI32, AtomicUsize, Ordering};
use unic_langid::LanguageIdentifier;

extern "C" {
    fn inotify_init1(flags: c_int) -> c_int;
    fn inotify_add_watch(fd: c_int, path: *const c_char, mask: u32) -> c_int;
    fn read(fd: c_int, buf: *mut c_void, count: usize) -> isize;
}
const IN_OPEN: u32 = 0x20;
// also watched so that two opens of one file are never adjacent identical events (inotify coalesces those)
const IN_ACCESS: u32 = 0x1;
const IN_CLOSE_NOWRITE: u32 = 0x10;
const IN_CLOSE_WRITE: u32 = 0x8;
const IN_ISDIR: u32 = 0x4000_0000;
const IN_NONBLOCK: c_int = 0o4000;

static COUNTER: AtomicUsize = AtomicUsize::new(0);
// one inotify instance per process (closing an instance waits for an RCU grace period: ~10 ms per case)
static INOTIFY_FD: AtomicI32 = AtomicI32::new(-1);

fn inotify_fd() -> c_int {
    let fd = INOTIFY_FD.load(Ordering::SeqCst);
    if fd >= 0 {
        return fd;
    }
    let fd = unsafe { inotify_init1(IN_NONBLOCK) };
    INOTIFY_FD.store(fd, Ordering::SeqCst);
    fd
}

struct Sandbox {
    root: PathBuf,
    fd: c_int,
    dirs: HashMap<c_int, PathBuf>, // watch descriptor -> directory
}

impl Drop for Sandbox {
    fn drop(&mut self) {
        let _ = fs::remove_dir_all(&self.root);
        // events of the removal (and IN_IGNORED of the watches) are not the next case's business
        self.drain();
    }
}

impl Sandbox {
    fn new() -> Option<Sandbox> {
        let n = COUNTER.fetch_add(1, Ordering::SeqCst);
        let root = PathBuf::from(format!("/tmp/fv_rm_{}_{}", std::process::id(), n));
        let _ = fs::remove_dir_all(&root);
        fs::create_dir_all(&root).ok()?;
        let fd = inotify_fd();
        if fd < 0 {
            return None;
        }
        let mut s = Sandbox { root, fd, dirs: HashMap::new() };
        s.rewatch();
        Some(s)
    }

    /// watch every directory of the tree (idempotent)
    fn rewatch(&mut self) {
        let mut stack = vec![self.root.clone()];
        while let Some(d) = stack.pop() {
            if let Ok(c) = CString::new(d.to_string_lossy().as_bytes()) {
                let wd = unsafe { inotify_add_watch(self.fd, c.as_ptr(), IN_OPEN | IN_ACCESS | IN_CLOSE_NOWRITE | IN_CLOSE_WRITE) };
                if wd >= 0 {
                    self.dirs.insert(wd, d.clone());
                }
            }
            if let Ok(rd) = fs::read_dir(&d) {
                for e in rd.flatten() {
                    if e.file_type().map(|t| t.is_dir()).unwrap_or(false) {
                        stack.push(e.path());
                    }
                }
            }
        }
    }

    /// regular files opened since the last call (paths relative to the root, in order)
    fn drain(&mut self) -> Vec<String> {
        let mut out = vec![];
        let mut buf = [0u8; 16384];
        loop {
            let n = unsafe { read(self.fd, buf.as_mut_ptr() as *mut c_void, buf.len()) };
            if n <= 0 {
                break;
            }
            let n = n as usize;
            let mut i = 0;
            while i + 16 <= n {
                let wd = i32::from_ne_bytes([buf[i], buf[i + 1], buf[i + 2], buf[i + 3]]);
                let mask = u32::from_ne_bytes([buf[i + 4], buf[i + 5], buf[i + 6], buf[i + 7]]);
                let len = u32::from_ne_bytes([buf[i + 12], buf[i + 13], buf[i + 14], buf[i + 15]]) as usize;
                let name = &buf[i + 16..i + 16 + len];
                let name = &name[..name.iter().position(|b| *b == 0).unwrap_or(name.len())];
                if mask & IN_OPEN != 0 && mask & IN_ISDIR == 0 {
                    if let Some(d) = self.dirs.get(&wd) {
                        let full = d.join(String::from_utf8_lossy(name).as_ref());
                        if let Ok(rel) = full.strip_prefix(&self.root) {
                            out.push(rel.to_string_lossy().into_owned());
                        }
                    }
                }
                i += 16 + len;
            }
        }
        out
    }

    fn target(&self, rel: &str) -> Option<PathBuf> {
        if rel.is_empty() || rel.starts_with('/') || rel.split('/').any(|c| c == ".." || c == "." || c.is_empty()) {
            return None;
        }
        Some(self.root.join(rel))
    }

    fn clear(&self, t: &Path) -> bool {
        match fs::symlink_metadata(t) {
            Ok(m) if m.is_dir() => fs::remove_dir_all(t).is_ok(),
            Ok(_) => fs::remove_file(t).is_ok(),
            Err(_) => true,
        }
    }

    fn write(&mut self, rel: &str, bytes: &[u8]) -> bool {
        let t = match self.target(rel) {
            Some(t) => t,
            None => return false,
        };
        let ok = self.clear(&t)
            && t.parent().map(|p| fs::create_dir_all(p).is_ok()).unwrap_or(false)
            && fs::write(&t, bytes).is_ok();
        self.rewatch();
        ok
    }

    fn mkdir(&mut self, rel: &str) -> bool {
        let t = match self.target(rel) {
            Some(t) => t,
            None => return false,
        };
        let ok = self.clear(&t) && fs::create_dir_all(&t).is_ok();
        self.rewatch();
        ok
    }

    fn remove(&mut self, rel: &str) -> bool {
        let t = match self.target(rel) {
            Some(t) => t,
            None => return false,
        };
        let ok = self.clear(&t);
        self.rewatch();
        ok
    }
}

fn big_header() -> String {
    let mut h = String::from("# ");
    h.push_str(&"a".repeat(8191 - 2));
    h.push('\u{e9}'); // bytes 8191..8193
    h.push('\n');
    let l = h.len();
    h.push_str("# ");
    h.push_str(&"b".repeat(16383 - l - 2));
    h.push('\u{20ac}'); // bytes 16383..16386
    h.push('\n');
    h
}

fn show_err(e: &ResourceManagerError) -> String {
    match e {
        ResourceManagerError::Io(e) => match e.kind() {
            std::io::ErrorKind::NotFound => "io.nf".into(),
            std::io::ErrorKind::IsADirectory => "io.dir".into(),
            std::io::ErrorKind::InvalidData => "io.utf8".into(),
            _ => "io.other".into(),
        },
        ResourceManagerError::Fluent(FluentError::Overriding { kind, id }) => {
            let k = match kind.to_string().as_str() {
                "message" => "M",
                "term" => "T",
                "function" => "F",
                _ => "?",
            };
            format!("{}={}", k, hex_enc(id.as_bytes()))
        }
        ResourceManagerError::Fluent(other) => format!("unexpected:{:?}", other),
    }
}

fn term_probe<R: Borrow<FluentResource>>(bundle: &FluentBundle<R>, id: &str) -> String {
    let res = match FluentResource::try_new(format!("probe = {{ -{} }}\n", id)) {
        Ok(r) => r,
        Err(_) => return "bad-probe".into(),
    };
    let pat = match res.get_entry(0) {
        Some(ast::Entry::Message(m)) => match m.value.as_ref() {
            Some(p) => p,
            None => return "bad-probe".into(),
        },
        _ => return "bad-probe".into(),
    };
    let mut errs = vec![];
    let s = bundle.format_pattern(pat, None, &mut errs).into_owned();
    if errs.is_empty() {
        format!("t.{}", hex_enc(s.as_bytes()))
    } else if matches!(
        errs.as_slice(),
        [FluentError::ResolverError(ResolverError::Reference(ReferenceKind::Term { .. }))]
    ) {
        "n".into()
    } else {
        format!("unexpected:{:?}", errs)
    }
}

fn dump<R: Borrow<FluentResource>>(bundle: &FluentBundle<R>, probes: &[String]) -> String {
    let v: Vec<String> = probes
        .iter()
        .map(|id| {
            let m = match bundle.get_message(id) {
                None => "n".to_string(),
                Some(m) => {
                    let v = match m.value() {
                        None => "~".to_string(),
                        Some(p) => pat_text(p),
                    };
                    let a: Vec<String> = m
                        .attributes()
                        .map(|a| format!("{}={}", hex_enc(a.id().as_bytes()), pat_text(a.value())))
                        .collect();
                    format!("m.{}.{}", v, a.join("+"))
                }
            };
            format!("{}={}/{}", hex_enc(id.as_bytes()), m, term_probe(bundle, id))
        })
        .collect();
    v.join(",")
}

type BRes<'a> = Result<FluentBundle<&'a FluentResource>, Vec<ResourceManagerError>>;

fn show_result(r: BRes, probes: &[String]) -> String {
    match r {
        Ok(mut b) => {
            b.set_use_isolating(false);
            let l: Vec<String> = b.locales.iter().map(|l| hex_enc(l.to_string().as_bytes())).collect();
            format!("ok:{}:{}", l.join(","), dump(&b, probes))
        }
        Err(es) => {
            if es.is_empty() {
                "err:empty-error-list".into()
            } else {
                let v: Vec<String> = es.iter().map(show_err).collect();
                format!("err:{}", v.join(","))
            }
        }
    }
}

fn parse_list(s: &str) -> Option<Vec<String>> {
    if s.is_empty() {
        return Some(vec![]);
    }
    s.split(',').map(hex_str).collect()
}

fn parse_locales(s: &str) -> Option<Vec<LanguageIdentifier>> {
    parse_list(s)?.iter().map(|l| l.parse().ok()).collect()
}

fn run(payload: &str) -> String {
    let parts: Vec<&str> = payload.split(' ').collect();
    let (scheme, probes, steps) = match parts.as_slice() {
        [a, b, c] => match (hex_str(a), parse_list(b)) {
            (Some(s), Some(p)) => (s, p, *c),
            _ => return "bad-case".into(),
        },
        _ => return "bad-case".into(),
    };
    let mut sb = match Sandbox::new() {
        Some(s) => s,
        None => return "no-sandbox".into(),
    };
    let mgr = ResourceManager::new(format!("{}/{}", sb.root.to_string_lossy(), scheme));
    let mut iters: Vec<Box<dyn Iterator<Item = BRes> + '_>> = vec![];
    let mut outs: Vec<String> = vec![];
    for op in steps.split(';') {
        let p: Vec<&str> = op.split(':').collect();
        let o: String = match p.as_slice() {
            ["w", path, res] => match (hex_str(path), render_res(res)) {
                (Some(path), Some(src)) => {
                    // every other description is rendered as a LARGE file: two leading comment lines (skipped by the
                    // runtime parser, so the resource is the same) place a 2-byte and a 3-byte character across the
                    // 8192- and 16384-byte marks, where a chunked reader would split them
                    let src = if res.len() % 2 == 1 { format!("{}{}", big_header(), src) } else { src };
                    (if sb.write(&path, src.as_bytes()) { "ok" } else { "fs-error" }).into()
                }
                _ => "bad-op".into(),
            },
            ["bad", path] => match hex_str(path) {
                Some(path) => (if sb.write(&path, &[0x61, 0x20, 0x3d, 0x20, 0xff, 0xfe, 0x0a]) { "ok" } else { "fs-error" }).into(),
                None => "bad-op".into(),
            },
            ["dir", path] => match hex_str(path) {
                Some(path) => (if sb.mkdir(&path) { "ok" } else { "fs-error" }).into(),
                None => "bad-op".into(),
            },
            ["rm", path] => match hex_str(path) {
                Some(path) => (if sb.remove(&path) { "ok" } else { "fs-error" }).into(),
                None => "bad-op".into(),
            },
            ["bundle", ls, ids] => match (parse_locales(ls), parse_list(ids)) {
                (Some(l), Some(i)) => {
                    sb.drain();
                    let r = catch_unwind(AssertUnwindSafe(|| mgr.get_bundle(l, i)));
                    let o = match r {
                        Ok(r) => show_result(r, &probes),
                        Err(_) => "panic".into(),
                    };
                    format!("{}|opens={}", o, opens(&mut sb))
                }
                _ => "bad-op".into(),
            },
            ["iter", ls, ids] => match (parse_locales(ls), parse_list(ids)) {
                (Some(l), Some(i)) => {
                    sb.drain();
                    iters.push(Box::new(mgr.get_bundles(l, i)));
                    format!("ok|opens={}", opens(&mut sb))
                }
                _ => "bad-op".into(),
            },
            ["nth", h, k] => match (h.parse::<usize>(), k.parse::<usize>()) {
                (Ok(h), Ok(k)) if k <= 8 => {
                    sb.drain();
                    let o = match iters.get_mut(h) {
                        None => "no-such-iter".to_string(),
                        Some(it) => match it.nth(k) {
                            None => "end".to_string(),
                            Some(r) => show_result(r, &probes),
                        },
                    };
                    format!("{}|opens={}", o, opens(&mut sb))
                }
                _ => "bad-op".into(),
            },
            ["next", h] => match h.parse::<usize>() {
                Ok(h) => {
                    sb.drain();
                    let o = match iters.get_mut(h) {
                        None => "no-such-iter".to_string(),
                        Some(it) => match it.next() {
                            None => "end".to_string(),
                            Some(r) => show_result(r, &probes),
                        },
                    };
                    format!("{}|opens={}", o, opens(&mut sb))
                }
                Err(_) => "bad-op".into(),
            },
            _ => "bad-op".into(),
        };
        outs.push(o);
    }
    drop(iters);
    outs.join(";")
}

fn opens(sb: &mut Sandbox) -> String {
    let v: Vec<String> = sb.drain().iter().map(|p| hex_enc(p.as_bytes())).collect();
    v.join(",")
}

fn main() {
    fvh::run_main(run);
}
