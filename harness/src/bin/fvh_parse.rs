//! area `parse`: `parse <hex src>` → `F <tree> <errors> R <tree> <errors>` for the full and the
//! runtime parser; borrowed (`&str`) and owned (`String`) instantiations are both run and compared.
use fluent_syntax::parser::{parse, parse_runtime};
use fvh::sexp;
use fvh::util::*;

fn run_one(payload: &str) -> String {
    let src = match hex_str(payload) {
        Some(s) => s,
        None => return "bad-case".to_string(),
    };
    let fb = sexp::result(&parse(src.as_str()));
    let fo = sexp::result(&parse(src.clone()));
    let rb = sexp::result(&parse_runtime(src.as_str()));
    let ro = sexp::result(&parse_runtime(src.clone()));
    let mut out = format!("F {} R {}", fb, rb);
    if fb != fo || rb != ro {
        out.push_str(" BORROWED!=OWNED");
    }
    // the bundle-side owner of a parsed source: same entries, same errors (positions and slices relative to
    // `source()`), and `source()` is the text that was handed in
    let (res, errs) = match fluent_bundle::FluentResource::try_new(src.clone()) {
        Ok(r) => (r, vec![]),
        Err((r, e)) => (r, e),
    };
    let (ast, perrs) = match parse_runtime(src.as_str()) {
        Ok(a) => (a, vec![]),
        Err((a, e)) => (a, e),
    };
    let same_entries = res.entries().count() == ast.body.len()
        && res.entries().zip(ast.body.iter()).all(|(a, b)| a == b)
        && (0..ast.body.len()).all(|i| res.get_entry(i) == ast.body.get(i))
        && res.get_entry(ast.body.len()).is_none();
    if !same_entries || errs != perrs || res.source() != src.as_str() {
        out.push_str(" RESOURCE!=PARSE_RUNTIME");
    }
    out
}

/// payload = one hex source, or several separated by `|` (observations joined by ` | `)
fn run(payload: &str) -> String {
    payload
        .split('|')
        .map(run_one)
        .collect::<Vec<_>>()
        .join(" | ")
}

fn main() {
    // deep nesting must be a finding, not a harness artefact: run on a thread with the default
    // main-thread-sized stack (8 MiB)
    let t = std::thread::Builder::new()
        .stack_size(8 << 20)
        .spawn(|| fvh::run_main(run))
        .unwrap();
    let _ = t.join();
}
