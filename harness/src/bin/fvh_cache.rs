//! area `cache` (C17): the REAL `fluent_fallback::Bundles` (whose `Cache`/`AsyncCache` are private to the
//! crate) driven by a scripted `BundleGenerator`.
//!
//! payload = `<mode>:<k>:<needs>/<endNeed>;op;op;…`  (see lean/FluentModel/Drv/CacheDrv.lean)
//! * async mode: up to k concurrent `Bundles::format_value|format_values|format_messages` futures, polled by
//!   hand with logging wakers; the generator's stream returns `Pending` while the current item's `need` is
//!   positive, remembers only the last waker, and `fire` decrements `need` and wakes that waker.
//! * sync mode: `format_*_sync` over the generator's iterator.
//! Bundle j (locale number j) has the messages m1 … m(j+1), all with text `b<j>`; a request of depth d asks
//! for `m<d>`, so it is answered by bundle d-1 and reports `MissingMessage{locale j}` for every bundle before.
use fluent_bundle::{FluentBundle, FluentResource};
use fluent_fallback::generator::{BundleGenerator, FluentBundleResult};
use fluent_fallback::types::{L10nKey, ResourceId};
use fluent_fallback::{Bundles, LocalizationError};
use futures::Stream;
use rustc_hash::FxHashSet;
use std::cell::RefCell;
use std::future::Future;
use std::pin::Pin;
use std::rc::Rc;
use std::sync::{Arc, Mutex};
use std::task::{Context, Poll, Wake, Waker};
use unic_langid::LanguageIdentifier;

struct Script {
    needs: Vec<usize>,
    next: usize,
    end_need: usize,
    waker: Option<Waker>,
    polls: usize,
    pulls: usize,
}

impl Script {
    fn fire(&mut self) -> Option<Waker> {
        if self.next < self.needs.len() {
            if self.needs[self.next] > 0 {
                self.needs[self.next] -= 1;
                self.waker.take()
            } else {
                None
            }
        } else if self.end_need > 0 {
            self.end_need -= 1;
            self.waker.take()
        } else {
            None
        }
    }
}

thread_local! {
    /// upper-case mode (`A`, `S`): bundles 2i and 2i+1 are two bundles of the SAME locale (a source with several bundles
    /// per locale); observations are unchanged - the harness tells them apart by the order in which they are reported
    static DUP_LOCALES: std::cell::Cell<bool> = const { std::cell::Cell::new(false) };
}

fn locale_name(j: usize) -> String {
    let j = if DUP_LOCALES.with(|d| d.get()) { j / 2 } else { j };
    let a = (b'a' + (j / 26) as u8) as char;
    let b = (b'a' + (j % 26) as u8) as char;
    format!("{}{}", a, b)
}

fn locale_index(l: &LanguageIdentifier) -> usize {
    let s = l.to_string();
    let b = s.as_bytes();
    (b[0] - b'a') as usize * 26 + (b[1] - b'a') as usize
}

fn make_bundle(j: usize) -> FluentBundleResult<FluentResource> {
    let locale: LanguageIdentifier = locale_name(j).parse().expect("locale");
    let mut bundle = FluentBundle::new(vec![locale]);
    let mut src = String::new();
    for d in 1..=j + 1 {
        src.push_str(&format!("m{} = b{}\n", d, j));
    }
    for d in 1..=j + 1 {
        // same depth structure, but formatting reports a RESOLVER error (unknown variable): the key is answered all the same
        src.push_str(&format!("e{} = b{}{{ $zz }}\n", d, j));
    }
    for d in 1..=j + 1 {
        // same depth structure, but the message formats to the EMPTY string: an answer all the same (api `z`)
        src.push_str(&format!("z{} = {{ \"\" }}\n", d));
    }
    for d in 1..=64usize {
        // api `w`: `w<d>` has a VALUE from bundle d-1 on and is attribute-only (value-less) in every earlier bundle: a batch of
        // values sees the message without a value first and its value later
        if d <= j + 1 {
            src.push_str(&format!("w{} = b{}\n", d, j));
        } else {
            src.push_str(&format!("w{} =\n    .a = x\n", d));
        }
    }
    // present in every bundle, attributes only (no value): answers a messages request at once, never a value request
    src.push_str("ao =\n    .a = x\n");
    if j % 3 == 1 {
        // every third bundle is PARTLY BROKEN: a junk line in its source, delivered as Err((usable bundle, errors)) -
        // it answers like any other bundle, and its errors are reported to every request that passes it
        src.push_str("junk line {\n");
        let (res, errs) = match FluentResource::try_new(src) {
            Ok(r) => (r, vec![]),
            Err((r, e)) => (r, e),
        };
        bundle.add_resource(res).expect("add_resource");
        let errs: Vec<fluent_bundle::FluentError> = errs.into_iter().map(fluent_bundle::FluentError::from).collect();
        return if errs.is_empty() { Ok(bundle) } else { Err((bundle, errs)) };
    }
    let res = FluentResource::try_new(src).expect("resource");
    bundle.add_resource(res).expect("add_resource");
    Ok(bundle)
}

struct SrcStream(Rc<RefCell<Script>>);

impl Stream for SrcStream {
    type Item = FluentBundleResult<FluentResource>;
    fn poll_next(self: Pin<&mut Self>, cx: &mut Context<'_>) -> Poll<Option<Self::Item>> {
        let mut s = self.0.borrow_mut();
        s.polls += 1;
        let pending = if s.next < s.needs.len() {
            s.needs[s.next] > 0
        } else {
            s.end_need > 0
        };
        if pending {
            // only the LAST waker is remembered
            s.waker = Some(cx.waker().clone());
            return Poll::Pending;
        }
        if s.next < s.needs.len() {
            let j = s.next;
            s.next += 1;
            s.pulls += 1;
            Poll::Ready(Some(make_bundle(j)))
        } else {
            Poll::Ready(None)
        }
    }
}

struct SrcIter(Rc<RefCell<Script>>);

impl Iterator for SrcIter {
    type Item = FluentBundleResult<FluentResource>;
    fn next(&mut self) -> Option<Self::Item> {
        let mut s = self.0.borrow_mut();
        s.polls += 1;
        if s.next < s.needs.len() {
            let j = s.next;
            s.next += 1;
            s.pulls += 1;
            Some(make_bundle(j))
        } else {
            None
        }
    }
}

// the default (empty) prefetch hooks
impl fluent_fallback::generator::BundleIterator for SrcIter {}
impl fluent_fallback::generator::BundleStream for SrcStream {}

struct Gen(Rc<RefCell<Script>>);

impl BundleGenerator for Gen {
    type Resource = FluentResource;
    type LocalesIter = std::vec::IntoIter<LanguageIdentifier>;
    type Iter = SrcIter;
    type Stream = SrcStream;
    fn bundles_iter(&self, _l: Self::LocalesIter, _r: FxHashSet<ResourceId>) -> Self::Iter {
        SrcIter(self.0.clone())
    }
    fn bundles_stream(&self, _l: Self::LocalesIter, _r: FxHashSet<ResourceId>) -> Self::Stream {
        SrcStream(self.0.clone())
    }
}

struct LogWaker {
    id: usize,
    log: Arc<Mutex<Vec<usize>>>,
}

impl Wake for LogWaker {
    fn wake(self: Arc<Self>) {
        self.log.lock().unwrap().push(self.id);
    }
    fn wake_by_ref(self: &Arc<Self>) {
        self.log.lock().unwrap().push(self.id);
    }
}

/// (answer per key, errors)
type Out = (Vec<Option<String>>, Vec<LocalizationError>);
type Fut<'a> = Pin<Box<dyn Future<Output = Out> + 'a>>;

fn key_ids(api: char, d: usize) -> Vec<String> {
    if api == 'v' {
        vec![format!("m{}", d)]
    } else if api == 'e' {
        vec![format!("e{}", d)]
    } else if api == 'n' {
        vec!["ao".to_string(), format!("m{}", d)]
    } else if api == 'z' {
        // a key that formats to "" first, the deep key last (both answered by the same bundle)
        vec![format!("z{}", d), format!("m{}", d)]
    } else if api == 'w' && d <= 64 {
        // a key that is value-less in every earlier bundle first, the deep key last (both answered by the same bundle)
        vec![format!("w{}", d), format!("m{}", d)]
    } else {
        // a shallower key first, the deep key last
        vec![format!("m{}", std::cmp::max(1, d / 2)), format!("m{}", d)]
    }
}

fn make_fut<'a>(b: &'a Bundles<Gen>, api: char, d: usize) -> Fut<'a> {
    let ids = key_ids(api, d);
    match api {
        'v' => Box::pin(async move {
            let mut errors = vec![];
            let r = b
                .format_value(&ids[0], None, &mut errors)
                .await
                .map(|c| c.into_owned());
            (vec![r], errors)
        }),
        's' | 'e' | 'z' | 'w' => Box::pin(async move {
            let keys: Vec<L10nKey> = ids.iter().map(|i| L10nKey::from(i.as_str())).collect();
            let mut errors = vec![];
            let r = b.format_values(&keys, &mut errors).await;
            (r.into_iter().map(|o| o.map(|c| c.into_owned())).collect(), errors)
        }),
        _ => Box::pin(async move {
            let keys: Vec<L10nKey> = ids.iter().map(|i| L10nKey::from(i.as_str())).collect();
            let mut errors = vec![];
            let r = b.format_messages(&keys, &mut errors).await;
            (
                r.into_iter()
                    .map(|o| o.map(|m| m.value.map(|c| c.into_owned()).unwrap_or_else(|| "<novalue>".to_string())))
                    .collect(),
                errors,
            )
        }),
    }
}

fn run_sync(b: &Bundles<Gen>, api: char, d: usize) -> Result<Out, LocalizationError> {
    let ids = key_ids(api, d);
    let mut errors = vec![];
    Ok(match api {
        'v' => {
            let r = b
                .format_value_sync(&ids[0], None, &mut errors)?
                .map(|c| c.into_owned());
            (vec![r], errors)
        }
        's' | 'e' | 'z' | 'w' => {
            let keys: Vec<L10nKey> = ids.iter().map(|i| L10nKey::from(i.as_str())).collect();
            let r = b.format_values_sync(&keys, &mut errors)?;
            (r.into_iter().map(|o| o.map(|c| c.into_owned())).collect(), errors)
        }
        _ => {
            let keys: Vec<L10nKey> = ids.iter().map(|i| L10nKey::from(i.as_str())).collect();
            let r = b.format_messages_sync(&keys, &mut errors)?;
            (
                r.into_iter()
                    .map(|o| o.map(|m| m.value.map(|c| c.into_owned()).unwrap_or_else(|| "<novalue>".to_string())))
                    .collect(),
                errors,
            )
        }
    })
}

fn dots(v: &[usize]) -> String {
    if v.is_empty() {
        "-".to_string()
    } else {
        v.iter().map(|x| x.to_string()).collect::<Vec<_>>().join(".")
    }
}

/// `R<j>/<got>` or `RN/<got>` from a completed request of depth d
fn show_done(api: char, d: usize, out: &Out) -> String {
    let ids = key_ids(api, d);
    let deep = ids.last().unwrap();
    let (answers, errors) = out;
    // bundles the request has seen, in order: one located error for the deep key per bundle that lacks it
    let mut got: Vec<usize> = vec![];
    let mut extra = String::new();
    for e in errors {
        match e {
            LocalizationError::MissingMessage { id, locale: Some(l) } => {
                if id == deep {
                    if DUP_LOCALES.with(|d| d.get()) {
                        // the first report of locale L is bundle 2L, the second bundle 2L+1 (a third is shown as such)
                        let li = locale_index(l);
                        let first = 2 * li;
                        let seen = got.iter().filter(|g| **g < 1000 && **g / 2 == li).count();
                        got.push(if seen < 2 { first + seen } else { 1000 + first });
                    } else {
                        got.push(locale_index(l));
                    }
                }
            }
            LocalizationError::MissingMessage { locale: None, .. } => {}
            // a partly broken bundle (every third one) reports its parser errors to every request that passes it
            LocalizationError::Bundle { .. } => {}
            // api `e`: the answering bundle reports the unknown variable; that is part of the answer
            LocalizationError::Resolver { .. } if api == 'e' => {}
            // api `w`: every earlier bundle has the first key without a value
            LocalizationError::MissingValue { .. } if api == 'w' => {}
            other => extra.push_str(&format!("~unexpected-error:{:?}", other).replace([';', ' '], "_")),
        }
    }
    let ans = answers.last().unwrap();
    let head = match ans {
        Some(t) => match t.strip_prefix('b').and_then(|n| n.chars().take_while(|c| c.is_ascii_digit()).collect::<String>().parse::<usize>().ok()) {
            Some(j) => {
                got.push(j);
                format!("R{}", j)
            }
            None => format!("R?{}", fvh::util::hex_enc(t.as_bytes())),
        },
        None => "RN".to_string(),
    };
    if api == 'n' {
        // the attribute-only message is found (without a value) in the first bundle the request sees
        let expect = if got.is_empty() { None } else { Some("<novalue>".to_string()) };
        if answers[0] != expect {
            extra.push_str("~attr-only-key-mismatch");
        }
    } else if api == 'w' && d <= 64 {
        // the key that was value-less so far is answered by the bundle that answers the deep key
        let expect = ans.clone();
        if answers[0] != expect {
            extra.push_str("~valueless-then-value-key-mismatch");
        }
    } else if api == 'z' {
        // the empty-text key is answered (with "") by the bundle that answers the deep key
        let expect = if ans.is_some() { Some(String::new()) } else { None };
        if answers[0] != expect {
            extra.push_str("~empty-text-key-mismatch");
        }
    } else if ids.len() == 2 {
        // the shallow key is answered by the bundle at its own depth iff the request got that far
        let d2 = std::cmp::max(1, d / 2);
        let expect = if got.len() >= d2 { Some(format!("b{}", got[d2 - 1])) } else { None };
        if answers[0] != expect {
            extra.push_str("~shallow-key-mismatch");
        }
    }
    format!("{}/{}{}", head, dots(&got), extra)
}

enum Op {
    Start(usize, usize, char),
    Poll(usize),
    Fire,
}

fn parse_op(k: usize, op: &str) -> Option<Op> {
    let p: Vec<&str> = op.split(':').collect();
    Some(match p.as_slice() {
        ["start", c, d, api] => {
            let c: usize = c.parse().ok()?;
            let d: usize = d.parse().ok()?;
            let api = match *api {
                "v" => 'v',
                "s" => 's',
                "m" => 'm',
                "n" => 'n',
                "e" => 'e',
                "z" => 'z',
                "w" => 'w',
                _ => return None,
            };
            if c >= k {
                return None;
            }
            Op::Start(c, std::cmp::max(d, 1), api)
        }
        ["poll", c] => {
            let c: usize = c.parse().ok()?;
            if c >= k {
                return None;
            }
            Op::Poll(c)
        }
        ["fire"] => Op::Fire,
        _ => return None,
    })
}

/// `<mode>:<k>:<needs>/<end>[:j]` - with `:j` the consumers 2i and 2i+1 are two requests joined in ONE task: they are
/// polled with the same waker (that of consumer 2i)
fn parse_header(h: &str) -> Option<(bool, usize, Vec<usize>, usize, bool)> {
    let mut p: Vec<&str> = h.split(':').collect();
    let joined = p.len() == 4 && p[3] == "j";
    if joined {
        p.pop();
    }
    if p.len() != 3 {
        return None;
    }
    let sync = match p[0] {
        "a" | "A" => false,
        "s" | "S" => true,
        _ => return None,
    };
    DUP_LOCALES.with(|d| d.set(p[0] == "A" || p[0] == "S"));
    let k: usize = p[1].parse().ok()?;
    let (needs, e) = p[2].split_once('/')?;
    let needs: Vec<usize> = if needs == "-" {
        vec![]
    } else {
        needs.split(',').map(|x| x.parse().ok()).collect::<Option<Vec<_>>>()?
    };
    let e: usize = e.parse().ok()?;
    if needs.len() > 600 {
        return None;
    }
    Some((sync, k, needs, e, joined))
}

fn run(payload: &str) -> String {
    let mut pieces = payload.split(';');
    let header = pieces.next().unwrap_or("");
    let (sync, k, needs, end_need, joined) = match parse_header(header) {
        Some(h) => h,
        None => return "bad-case".to_string(),
    };
    let script = Rc::new(RefCell::new(Script {
        needs: if sync { vec![0; needs.len()] } else { needs },
        next: 0,
        end_need: if sync { 0 } else { end_need },
        waker: None,
        polls: 0,
        pulls: 0,
    }));
    let gen = Gen(script.clone());
    let provider: Vec<LanguageIdentifier> = vec![];
    let bundles: Bundles<Gen> = Bundles::new(sync, FxHashSet::default(), &gen, &provider);
    let log: Arc<Mutex<Vec<usize>>> = Arc::new(Mutex::new(vec![]));
    let wakers: Vec<Arc<LogWaker>> = (0..k)
        .map(|id| Arc::new(LogWaker { id, log: log.clone() }))
        .collect();
    let mut futs: Vec<Option<(Fut, char, usize)>> = (0..k).map(|_| None).collect();
    let mut reqs: Vec<Option<(char, usize)>> = vec![None; k];
    let mut outs: Vec<String> = vec!["hdr".to_string()];
    let counts = |s: &Rc<RefCell<Script>>| {
        let s = s.borrow();
        format!("#{}.{}", s.polls, s.pulls)
    };
    let pf_waker = Arc::new(LogWaker { id: k, log: log.clone() });
    for piece in pieces {
        log.lock().unwrap().clear();
        if piece == "pf" {
            // Bundles::prefetch_sync / prefetch_async, driven to completion: forwards to the source's (default, empty)
            // hook; must not generate a bundle, move the source, or wake anybody
            if sync {
                bundles.prefetch_sync();
                outs.push(format!("pf{}!{}", counts(&script), dots(&log.lock().unwrap())));
            } else {
                let mut fut: Pin<Box<dyn Future<Output = ()> + '_>> = Box::pin(bundles.prefetch_async());
                let waker = Waker::from(pf_waker.clone());
                let mut cx = Context::from_waker(&waker);
                let mut done = false;
                for _ in 0..3 {
                    if fut.as_mut().poll(&mut cx).is_ready() {
                        done = true;
                        break;
                    }
                }
                drop(fut);
                outs.push(format!("pf{}{}!{}", if done { "" } else { "-PENDING" }, counts(&script), dots(&log.lock().unwrap())));
            }
            continue;
        }
        if let Some(c) = piece.strip_prefix("cancel:").and_then(|c| c.parse::<usize>().ok()) {
            // CANCELLATION: the future of consumer c is dropped while it is (possibly) pending, as a timeout wrapper or
            // select! does. Whatever it left behind in the cache must not keep later requests from making progress.
            if c >= k || sync {
                outs.push("bad-op".to_string());
            } else if futs[c].take().is_some() {
                outs.push(format!("x{}!{}", counts(&script), dots(&log.lock().unwrap())));
            } else {
                outs.push("idle".to_string());
            }
            continue;
        }
        if piece == "sx" {
            // a SYNC request on this set, whatever its mode: on an asynchronous set it must be refused at once
            // (Err(SyncRequestInAsyncMode)) without asking the source, registering a waker or waking anybody;
            // on a synchronous set it is an ordinary request of depth 1
            let mut errors = vec![];
            let r = bundles.format_value_sync("m1", None, &mut errors);
            let tag = match (&r, sync) {
                (Err(_), false) => "refused".to_string(),
                (Ok(_), false) => "ANSWERED-IN-ASYNC-MODE".to_string(),
                (Ok(v), true) => format!("ok{}", v.as_ref().map(|c| c.len()).unwrap_or(0)),
                (Err(_), true) => "REFUSED-IN-SYNC-MODE".to_string(),
            };
            outs.push(format!("sx:{}{}!{}", tag, counts(&script), dots(&log.lock().unwrap())));
            continue;
        }
        let o = match parse_op(k, piece) {
            None => "bad-op".to_string(),
            Some(Op::Start(c, d, api)) => {
                if sync {
                    if reqs[c].is_some() {
                        "busy".to_string()
                    } else {
                        reqs[c] = Some((api, d));
                        "s".to_string()
                    }
                } else if futs[c].is_some() {
                    "busy".to_string()
                } else {
                    futs[c] = Some((make_fut(&bundles, api, d), api, d));
                    "s".to_string()
                }
            }
            Some(Op::Poll(c)) => {
                if sync {
                    match reqs[c].take() {
                        None => "idle".to_string(),
                        Some((api, d)) => match run_sync(&bundles, api, d) {
                            Ok(out) => format!(
                                "{}{}!{}",
                                show_done(api, d, &out),
                                counts(&script),
                                dots(&log.lock().unwrap())
                            ),
                            Err(e) => format!("ERR{:?}", e),
                        },
                    }
                } else {
                    match futs[c].as_mut() {
                        None => "idle".to_string(),
                        Some((fut, api, d)) => {
                            let (api, d) = (*api, *d);
                            let waker = Waker::from(wakers[if joined { c - c % 2 } else { c }].clone());
                            let mut cx = Context::from_waker(&waker);
                            match fut.as_mut().poll(&mut cx) {
                                Poll::Pending => {
                                    format!("P{}!{}", counts(&script), dots(&log.lock().unwrap()))
                                }
                                Poll::Ready(out) => {
                                    futs[c] = None;
                                    format!(
                                        "{}{}!{}",
                                        show_done(api, d, &out),
                                        counts(&script),
                                        dots(&log.lock().unwrap())
                                    )
                                }
                            }
                        }
                    }
                }
            }
            Some(Op::Fire) => {
                let w = script.borrow_mut().fire();
                if let Some(w) = w {
                    w.wake();
                }
                format!("f{}!{}", counts(&script), dots(&log.lock().unwrap()))
            }
        };
        outs.push(o);
    }
    drop(futs);
    outs.join(";")
}

fn main() {
    fvh::run_main(run);
}
