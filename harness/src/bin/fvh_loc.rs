//! area `loc` (C18): one `fluent_fallback::Localization` over a logging `BundleGenerator` and a mutable
//! `LocalesProvider`; a history of state changes, requests, held handles and requests in flight.
//! See lean/FluentModel/Drv/LocDrv.lean for the case line and observation format.
#[path = "../fb_common.rs"]
mod fb_common;
use fb_common::*;

use fluent_bundle::{FluentBundle, FluentResource};
use fluent_fallback::env::LocalesProvider;
use fluent_fallback::generator::{BundleGenerator, BundleIterator, BundleStream, FluentBundleResult};
use fluent_fallback::types::{ResourceId, ResourceType};
use fluent_fallback::{Bundles, Localization, LocalizationError};
use futures::executor::block_on;
use rustc_hash::FxHashSet;
use std::cell::{Cell, RefCell};
use std::future::Future;
use std::pin::Pin;
use std::rc::Rc;
use std::task::{Context, Poll};
use unic_langid::LanguageIdentifier;

const LOC_POOL: [&str; 4] = ["en", "pl", "de", "fr"];
const ID_POOL: [&str; 7] = ["a", "b", "c", "d", "e", "A", "B"]; // `a`/`A`, `b`/`B` differ only in ASCII case: DIFFERENT ids

fn idx_of(pool: &[&str], x: &str) -> usize {
    pool.iter().position(|p| *p == x).unwrap_or(pool.len())
}

fn avail(l: &str, r: &str) -> bool {
    (idx_of(&LOC_POOL, l) + idx_of(&ID_POOL, r)) % 3 != 0
}

#[derive(Clone)]
struct Prov(Rc<RefCell<Vec<LanguageIdentifier>>>);

impl LocalesProvider for Prov {
    type Iter = std::vec::IntoIter<LanguageIdentifier>;
    fn locales(&self) -> Self::Iter {
        // through the crate's own provider for `Vec<LanguageIdentifier>`, so that it is exercised as well
        let v: Vec<LanguageIdentifier> = self.0.borrow().clone();
        LocalesProvider::locales(&v)
    }
}

type Log = Rc<RefCell<Vec<String>>>;

struct LogGen {
    log: Log,
    calls: Rc<Cell<usize>>,
}

/// the sequence of bundles of one generator call; as a stream every item is `Pending` once
struct Seq {
    locales: Vec<LanguageIdentifier>,
    ids: Vec<(String, bool)>,
    idx: usize,
    armed: bool,
    n: usize,
    log: Log,
}

impl Seq {
    fn produce(&mut self) -> Option<FluentBundleResult<FluentResource>> {
        let locale = self.locales.get(self.idx)?.clone();
        self.idx += 1;
        let l = locale.to_string();
        let mut bundle = FluentBundle::new(vec![locale]);
        bundle.set_use_isolating(false);
        let mut errors = vec![];
        for (r, optional) in &self.ids {
            let mut src = format!("t-{} = {}:{}:{}\n", r, l, r, if *optional { "O" } else { "R" });
            if avail(&l, r) {
                src.push_str(&format!("{} = {}:{}\n", r, l, r));
            }
            let res = match FluentResource::try_new(src) {
                Ok(res) => res,
                Err((res, err)) => {
                    errors.extend(err.into_iter().map(Into::into));
                    res
                }
            };
            if let Err(err) = bundle.add_resource(res) {
                errors.extend(err);
            }
        }
        if errors.is_empty() {
            Some(Ok(bundle))
        } else {
            Some(Err((bundle, errors)))
        }
    }
}

impl Iterator for Seq {
    type Item = FluentBundleResult<FluentResource>;
    fn next(&mut self) -> Option<Self::Item> {
        self.produce()
    }
}

impl futures::Stream for Seq {
    type Item = FluentBundleResult<FluentResource>;
    fn poll_next(mut self: Pin<&mut Self>, cx: &mut Context<'_>) -> Poll<Option<Self::Item>> {
        if self.idx >= self.locales.len() {
            return Poll::Ready(None);
        }
        if !self.armed {
            self.armed = true;
            cx.waker().wake_by_ref();
            return Poll::Pending;
        }
        self.armed = false;
        Poll::Ready(self.produce())
    }
}

impl BundleIterator for Seq {
    fn prefetch_sync(&mut self) {
        self.log.borrow_mut().push(format!("P{}", self.n));
    }
}

#[async_trait::async_trait(?Send)]
impl BundleStream for Seq {
    async fn prefetch_async(&mut self) {
        self.log.borrow_mut().push(format!("P{}", self.n));
    }
}

impl LogGen {
    fn seq(&self, tag: &str, locales: std::vec::IntoIter<LanguageIdentifier>, res_ids: FxHashSet<ResourceId>) -> Seq {
        let locales: Vec<LanguageIdentifier> = locales.collect();
        let mut ids: Vec<(String, bool)> = res_ids
            .iter()
            .map(|r| (r.value.clone(), r.is_optional()))
            .collect();
        ids.sort();
        let n = self.calls.get();
        self.calls.set(n + 1);
        self.log.borrow_mut().push(format!(
            "{}({}/{})",
            tag,
            locales.iter().map(|l| l.to_string()).collect::<Vec<_>>().join("+"),
            ids.iter()
                .map(|(v, o)| format!("{}{}", v, if *o { "O" } else { "R" }))
                .collect::<Vec<_>>()
                .join("+")
        ));
        Seq { locales, ids, idx: 0, armed: false, n, log: self.log.clone() }
    }
}

impl BundleGenerator for LogGen {
    type Resource = FluentResource;
    type LocalesIter = std::vec::IntoIter<LanguageIdentifier>;
    type Iter = Seq;
    type Stream = Seq;

    fn bundles_iter(&self, locales: Self::LocalesIter, res_ids: FxHashSet<ResourceId>) -> Seq {
        self.seq("I", locales, res_ids)
    }

    fn bundles_stream(&self, locales: Self::LocalesIter, res_ids: FxHashSet<ResourceId>) -> Seq {
        self.seq("S", locales, res_ids)
    }
}

fn parse_list(s: &str) -> Vec<&str> {
    if s == "-" || s.is_empty() {
        vec![]
    } else {
        s.split(',').collect()
    }
}

fn parse_locales(s: &str) -> Option<Vec<LanguageIdentifier>> {
    parse_list(s)
        .into_iter()
        .map(|l| {
            let id: LanguageIdentifier = l.parse().ok()?;
            if id.to_string() == l { Some(id) } else { None }
        })
        .collect()
}

fn parse_id(s: &str) -> Option<ResourceId> {
    if let Some(v) = s.strip_suffix('R') {
        Some(ResourceId::new(v, ResourceType::Required))
    } else {
        s.strip_suffix('O').map(|v| ResourceId::new(v, ResourceType::Optional))
    }
}

fn parse_ids(s: &str) -> Option<Vec<ResourceId>> {
    parse_list(s).into_iter().map(parse_id).collect()
}

/// a matcher for `remove_resource_id<T: PartialEq<ResourceId>>` that is equal to every id of a list
struct AnyOf(Vec<String>);

impl PartialEq<ResourceId> for AnyOf {
    fn eq(&self, other: &ResourceId) -> bool {
        self.0.iter().any(|v| *v == other.value)
    }
}

type Rcb = Rc<Bundles<LogGen>>;
type Answer = (Option<String>, Vec<LocalizationError>);

enum InFlight {
    Running(usize, Pin<Box<dyn Future<Output = Answer>>>),
    Done(usize, Answer),
}

fn class_of(seen: &mut Vec<Rcb>, rc: &Rcb) -> usize {
    if let Some(i) = seen.iter().position(|x| Rc::ptr_eq(x, rc)) {
        i
    } else {
        seen.push(rc.clone());
        seen.len() - 1
    }
}

fn show_answer(class: usize, a: &Answer) -> String {
    let v = match &a.0 {
        Some(t) => format!("some={}", fvh::util::hex_enc(t.as_bytes())),
        None => "none".to_string(),
    };
    format!("h{}:{}:E{}", class, v, show_errs(&a.1))
}

fn canon_err_short(e: &LocalizationError) -> String {
    format!("{:?}", e).chars().take(60).collect()
}

fn ask(rc: &Rcb, key: &str) -> Answer {
    let mut errors = vec![];
    let r = block_on(rc.format_value(key, None, &mut errors)).map(|c| c.into_owned());
    (r, errors)
}

fn run(payload: &str) -> String {
    let segs: Vec<&str> = payload.split(';').collect();
    let ini: Vec<&str> = segs[0].split(':').collect();
    let (sync, locales, ids) = match ini.as_slice() {
        ["init", mode, ls, ids] => {
            let sync = match *mode {
                "s" => true,
                "a" => false,
                _ => return "bad-case".to_string(),
            };
            match (parse_locales(ls), parse_ids(ids)) {
                (Some(l), Some(i)) => (sync, l, i),
                _ => return "bad-case".to_string(),
            }
        }
        _ => return "bad-case".to_string(),
    };
    let log: Log = Rc::new(RefCell::new(vec![]));
    // the built-in provider (`Vec<LanguageIdentifier>`): it hands over exactly the locales it holds, in their order -
    // also the root locale and locales without a language subtag
    let vec_provider_ok = {
        let mut v: Vec<LanguageIdentifier> = locales.clone();
        for extra in ["und", "und-Latn", "en-US", "und-Cyrl-RS"] {
            if let Ok(l) = extra.parse::<LanguageIdentifier>() {
                v.push(l);
            }
        }
        let got: Vec<LanguageIdentifier> = <Vec<LanguageIdentifier> as LocalesProvider>::locales(&v).collect();
        got == v
    };
    let prov = Prov(Rc::new(RefCell::new(locales)));
    let generator = LogGen { log: log.clone(), calls: Rc::new(Cell::new(0)) };
    let mut loc: Localization<LogGen, Prov> = Localization::with_env(ids, sync, prov.clone(), generator);

    let mut seen: Vec<Rcb> = vec![];
    let mut held: Vec<Rcb> = vec![];
    // the mode each held handle was created in (a set keeps answering from the state it was created in)
    let mut held_sync: Vec<bool> = vec![];
    let mut inflight: std::collections::VecDeque<InFlight> = Default::default();
    let mut outs: Vec<String> = vec![];
    for op in &segs[1..] {
        let p: Vec<&str> = op.split(':').collect();
        let n0 = log.borrow().len();
        let o: Option<String> = match p.as_slice() {
            ["add", r] => parse_id(r).map(|r| {
                loc.add_resource_id(r);
                "ok".to_string()
            }),
            ["addm", rs] => parse_ids(rs).map(|rs| {
                loc.add_resource_ids(rs);
                "ok".to_string()
            }),
            ["rm", r] => parse_id(r).map(|r| format!("len={}", loc.remove_resource_id(r))),
            ["rmm", rs] => parse_ids(rs).map(|rs| format!("len={}", loc.remove_resource_ids(rs))),
            // the SINGLE removal entry point with a generic matcher that is equal to several ids at once
            ["rmp", rs] => parse_ids(rs).map(|rs| {
                let m = AnyOf(rs.into_iter().map(|r| r.value).collect());
                format!("len={}", loc.remove_resource_id(m))
            }),
            ["loc", ls] => parse_locales(ls).map(|ls| {
                let mut v = prov.0.borrow_mut();
                v.clear();
                v.extend(ls);
                "ok".to_string()
            }),
            ["chg"] => {
                loc.on_change();
                Some("ok".to_string())
            }
            ["async"] => {
                loc.set_async();
                Some("ok".to_string())
            }
            ["pfs"] => {
                loc.prefetch_sync();
                let rc = loc.bundles().clone();
                class_of(&mut seen, &rc);
                Some("ok".to_string())
            }
            ["pfa"] => {
                block_on(loc.prefetch_async());
                let rc = loc.bundles().clone();
                class_of(&mut seen, &rc);
                Some("ok".to_string())
            }
            ["bun"] => {
                let rc = loc.bundles().clone();
                let c = class_of(&mut seen, &rc);
                Some(format!("h{}:{}", c, if loc.is_sync() { "s" } else { "a" }))
            }
            ["req", k] => {
                let rc = loc.bundles().clone();
                let c = class_of(&mut seen, &rc);
                Some(show_answer(c, &ask(&rc, k)))
            }
            ["hold"] => {
                let rc = loc.bundles().clone();
                let c = class_of(&mut seen, &rc);
                held.push(rc);
                held_sync.push(loc.is_sync());
                Some(format!("h{}:{}", c, if loc.is_sync() { "s" } else { "a" }))
            }
            ["ask", n, k] => n.parse::<usize>().ok().map(|n| match held.get(n) {
                Some(rc) => {
                    let c = class_of(&mut seen, rc);
                    let a = ask(rc, k);
                    // the SYNC request API of the held set: a set created in sync mode answers it (with what the async API
                    // gives), a set created in async mode refuses it - whatever mode the localization is in by now
                    let mut e2 = vec![];
                    let s2 = rc.format_value_sync(k, None, &mut e2).map(|o| o.map(|c| c.into_owned()));
                    let ok = match (held_sync[n], &s2) {
                        (true, Ok(r)) => *r == a.0 && show_errs(&e2) == show_errs(&a.1),
                        (false, Err(_)) => e2.is_empty(),
                        _ => false,
                    };
                    if ok {
                        show_answer(c, &a)
                    } else {
                        format!("{} SYNC-API-DISAGREE(handle created {}: {:?})", show_answer(c, &a), if held_sync[n] { "sync" } else { "async" }, s2.map_err(|e| canon_err_short(&e))).replace(';', ",")
                    }
                }
                None => "bad-op".to_string(),
            }),
            ["beg", n, k] => n.parse::<usize>().ok().map(|n| match held.get(n) {
                Some(rc) => {
                    let c = class_of(&mut seen, rc);
                    let rc = rc.clone();
                    let key = k.to_string();
                    let mut fut: Pin<Box<dyn Future<Output = Answer>>> = Box::pin(async move {
                        let mut errors = vec![];
                        let r = rc
                            .format_value(&key, None, &mut errors)
                            .await
                            .map(|c| c.into_owned());
                        (r, errors)
                    });
                    // one poll now; the rest happens at `fin`, after whatever the history does in between
                    let waker = futures::task::noop_waker();
                    let mut cx = Context::from_waker(&waker);
                    match fut.as_mut().poll(&mut cx) {
                        Poll::Ready(a) => inflight.push_back(InFlight::Done(c, a)),
                        Poll::Pending => inflight.push_back(InFlight::Running(c, fut)),
                    }
                    "begun".to_string()
                }
                None => "bad-op".to_string(),
            }),
            ["fin"] => Some(match inflight.pop_front() {
                Some(InFlight::Done(c, a)) => show_answer(c, &a),
                Some(InFlight::Running(c, fut)) => show_answer(c, &block_on(fut)),
                None => "bad-op".to_string(),
            }),
            _ => None,
        };
        let new: Vec<String> = log.borrow()[n0..].to_vec();
        outs.push(format!("{}|L[{}]", o.unwrap_or_else(|| "bad-op".to_string()), new.join(",")));
    }
    if !vec_provider_ok {
        if let Some(first) = outs.first_mut() {
            first.push_str(" VEC-PROVIDER-DISAGREE");
        }
    }
    outs.join(";")
}

fn main() {
    fvh::run_main(run);
}
