//! area `unesc`: string-literal escapes (C13)
//! payload = hex of the input string (`-` = empty)
//! observation: `s:ok:<hex>:<b|o>;w:ok:<hex>;f:<hex|na>;r:<hex|na>`
//!   s = unescape_unicode_to_string (b = Cow::Borrowed, o = Cow::Owned)
//!   w = unescape_unicode into a String that already holds "["
//!   f = `m = { "<input>" }` formatted with format_pattern (writer path of the resolver), `na` when the parser
//!       does not admit the literal
//!   r = `n = { ID("<input>") }` with ID returning its argument (resolve path of the resolver)
//!   k = `k = { NAMED(x: "<input>") }` with NAMED returning its named argument x
//!   t = `p = { -t(x: "<input>") }` with `-t = { $x }` (named argument of a parameterized term)
//!   q = `q = { "<input>" -> [a] A *[o] { "<input>" } }` (literal as selector; default arm prints it)
use fluent_bundle::{FluentArgs, FluentBundle, FluentResource, FluentValue};
use fluent_syntax::unicode::{unescape_unicode, unescape_unicode_to_string};
use fvh::util::*;
use std::borrow::Cow;
use std::panic;

fn through_bundle(input: &str) -> Vec<String> {
    let na = |s: &str| vec![s.to_string(); 5];
    let src = format!(
        "m = {{ \"{0}\" }}\nn = {{ ID(\"{0}\") }}\nk = {{ NAMED(x: \"{0}\") }}\n-t = {{ $x }}\np = {{ -t(x: \"{0}\") }}\nq = {{ \"{0}\" ->\n [a] A\n *[o] {{ \"{0}\" }}\n }}\n",
        input
    );
    // a panic inside the parser is C01's business (finding F1), not an observation of the decoder
    let res = match panic::catch_unwind(|| FluentResource::try_new(src)) {
        Ok(Ok(r)) => r,
        Ok(Err(_)) => return na("na"),
        Err(_) => return na("na-parser-panic"),
    };
    let mut bundle: FluentBundle<FluentResource> = FluentBundle::new(vec!["en-US".parse().unwrap()]);
    bundle.set_use_isolating(false);
    bundle
        .add_function("ID", |pos: &[FluentValue], _: &FluentArgs| match pos.first() {
            Some(FluentValue::String(s)) => FluentValue::String(Cow::Owned(s.to_string())),
            _ => FluentValue::Error,
        })
        .unwrap();
    bundle
        .add_function("NAMED", |_: &[FluentValue], named: &FluentArgs| match named.get("x") {
            Some(FluentValue::String(s)) => FluentValue::String(Cow::Owned(s.to_string())),
            _ => FluentValue::Error,
        })
        .unwrap();
    if bundle.add_resource(res).is_err() {
        return na("na");
    }
    let mut out = vec![];
    for id in ["m", "n", "k", "p", "q"] {
        let o = match bundle.get_message(id).and_then(|m| m.value()) {
            Some(p) => {
                let mut errs = vec![];
                let v = bundle.format_pattern(p, None, &mut errs);
                if errs.is_empty() {
                    hex_enc(v.as_bytes())
                } else {
                    format!("err{}", errs.len())
                }
            }
            None => "na".to_string(),
        };
        out.push(o);
    }
    out
}

fn run(payload: &str) -> String {
    let input = match hex_str(payload) {
        Some(s) => s,
        None => return "bad-input".to_string(),
    };
    let s = match panic::catch_unwind(|| {
        let r = unescape_unicode_to_string(&input);
        let kind = match &r {
            Cow::Borrowed(b) => {
                // borrowed must be the very same slice
                if b.as_ptr() == input.as_ptr() && b.len() == input.len() {
                    "b"
                } else {
                    "b?"
                }
            }
            Cow::Owned(_) => "o",
        };
        format!("s:ok:{}:{}", hex_enc(r.as_bytes()), kind)
    }) {
        Ok(x) => x,
        Err(_) => "s:panic".to_string(),
    };
    let w = match panic::catch_unwind(|| {
        let mut w = String::from("[");
        match unescape_unicode(&mut w, &input) {
            Ok(()) => format!("w:ok:{}", hex_enc(w.as_bytes())),
            Err(_) => "w:err".to_string(),
        }
    }) {
        Ok(x) => x,
        Err(_) => "w:panic".to_string(),
    };
    let b = match panic::catch_unwind(|| through_bundle(&input)) {
        Ok(x) => x,
        Err(_) => vec!["panic".to_string(); 5],
    };
    format!("{};{};f:{};r:{};k:{};t:{};q:{}", s, w, b[0], b[1], b[2], b[3], b[4])
}

fn main() {
    fvh::run_main(run);
}
