//! area `unesc`: string-literal escapes (C13)
//! payload = hex of the input string (`-` = empty)
//! observation: `s:ok:<hex>:<b|o>;w:ok:<hex>;f:<hex|na>;r:<hex|na>`
//!   s = unescape_unicode_to_string (b = Cow::Borrowed, o = Cow::Owned)
//!   w = unescape_unicode into a String that already holds "["
//!   f = `m = { "<input>" }` formatted with format_pattern (writer path of the resolver), `na` when the parser
//!       does not admit the literal
//!   r = `n = { ID("<input>") }` with ID returning its argument (resolve path of the resolver)
//!   k = `k = { NAMED(x: "<input>") }` with NAMED returning its named argument x
//!   t = `p = { -t(x: "<input>") }` with `-t = { $x }` (named argument of a parameterized term)
//!   y = `y = { ID({ "<input>" }) }{ { "<input>" } }` (the literal wrapped in an inline placeable: as a function argument and
//!       nested in a placeable; prints the decoded text twice)
//!   q = `q = { "<input>" -> [a] A *[o] { "<input>" } }` (literal as selector; default arm prints it)
use fluent_bundle::{FluentArgs, FluentBundle, FluentResource, FluentValue};
use fluent_syntax::unicode::{unescape_unicode, unescape_unicode_to_string};
use fvh::util::*;
use std::borrow::Cow;
use std::panic;

fn through_bundle(input: &str) -> Vec<String> {
    let na = |s: &str| vec![s.to_string(); 6];
    let src = format!(
        "m = {{ \"{0}\" }}\nn = {{ ID(\"{0}\") }}\nk = {{ NAMED(x: \"{0}\") }}\n-t = {{ $x }}\np = {{ -t(x: \"{0}\") }}\nq = {{ \"{0}\" ->\n [a] A\n *[o] {{ \"{0}\" }}\n }}\ny = {{ ID({{ \"{0}\" }}) }}{{ {{ \"{0}\" }} }}\n",
        input
    );
    // a panic inside the parser is C01's business (finding F1), not an observation of the decoder
    let mk = |mode: u8| -> Result<FluentBundle<FluentResource>, &'static str> {
        let with_transform = mode == 1;
        let res = match panic::catch_unwind(|| FluentResource::try_new(src.clone())) {
            Ok(Ok(r)) => r,
            Ok(Err(_)) => return Err("na"),
            Err(_) => return Err("na-parser-panic"),
        };
        let mut bundle: FluentBundle<FluentResource> = FluentBundle::new(vec!["en-US".parse().unwrap()]);
        bundle.set_use_isolating(false);
        if with_transform {
            bundle.set_transform(Some(|s: &str| -> Cow<str> { Cow::Owned(s.to_ascii_uppercase()) }));
        }
        if mode == 2 {
            // a value FORMATTER that rewrites strings (e.g. a markup escaper for arguments): a string LITERAL written
            // as a placeable is not a value that came from outside - it is decoded and written as it is
            bundle.set_formatter(Some(|v: &FluentValue, _: &intl_memoizer::IntlLangMemoizer| match v {
                FluentValue::String(s) => Some(format!("<{}>", s)),
                _ => None,
            }));
        }
        bundle
            .add_function("ID", |pos: &[FluentValue], _: &FluentArgs| match pos.first() {
                Some(FluentValue::String(s)) => FluentValue::String(Cow::Owned(s.to_string())),
                _ => FluentValue::Error,
            })
            .unwrap();
        bundle
            .add_function("NAMED", |_: &[FluentValue], named: &FluentArgs| match named.get("x") {
                Some(FluentValue::String(s)) => FluentValue::String(Cow::Owned(s.to_string())),
                _ => FluentValue::Error,
            })
            .unwrap();
        if bundle.add_resource(res).is_err() {
            return Err("na");
        }
        Ok(bundle)
    };
    let (bundle, bundle_t, bundle_f) = match (mk(0), mk(1), mk(2)) {
        (Ok(a), Ok(b), Ok(c)) => (a, b, c),
        (Err(e), _, _) | (_, Err(e), _) | (_, _, Err(e)) => return na(e),
    };
    let mut out = vec![];
    for id in ["m", "n", "k", "p", "q", "y"] {
        let o = match bundle.get_message(id).and_then(|m| m.value()) {
            Some(p) => {
                let mut errs = vec![];
                let v = bundle.format_pattern(p, None, &mut errs).into_owned();
                // the writer entry point, and both entry points with a text TRANSFORM installed: a string literal is
                // not text of the pattern - its source (escapes included) never goes through the transform, and it is
                // decoded the same way by both entry points
                let mut w = String::new();
                let mut errs_w = vec![];
                let _ = bundle.write_pattern(&mut w, p, None, &mut errs_w);
                let pt = bundle_t.get_message(id).and_then(|m| m.value()).unwrap_or(p);
                let mut e3 = vec![];
                let vt = bundle_t.format_pattern(pt, None, &mut e3).into_owned();
                let mut wt = String::new();
                let mut e4 = vec![];
                let _ = bundle_t.write_pattern(&mut wt, pt, None, &mut e4);
                // m and q write the literal itself (n, k, p hand it to a function / a term as a VALUE, which a formatter sees)
                let mut vf = v.clone();
                let mut wf = v.clone();
                if id == "m" || id == "q" {
                    let pf = bundle_f.get_message(id).and_then(|m| m.value()).unwrap_or(p);
                    let mut e5 = vec![];
                    vf = bundle_f.format_pattern(pf, None, &mut e5).into_owned();
                    wf = String::new();
                    let mut e6 = vec![];
                    let _ = bundle_f.write_pattern(&mut wf, pf, None, &mut e6);
                }
                if !errs.is_empty() {
                    format!("err{}", errs.len())
                } else if vf != v || wf != v {
                    format!("err-formatter-touches-literal:{}/{}", hex_enc(vf.as_bytes()), hex_enc(wf.as_bytes()))
                } else if w != v || !errs_w.is_empty() {
                    format!("err-write_pattern-differs:{}", hex_enc(w.as_bytes()))
                } else if vt != v || wt != v || !e3.is_empty() || !e4.is_empty() {
                    format!("err-transform-touches-literal:{}/{}", hex_enc(vt.as_bytes()), hex_enc(wt.as_bytes()))
                } else {
                    hex_enc(v.as_bytes())
                }
            }
            None => "na".to_string(),
        };
        out.push(o);
    }
    out
}

fn run(payload: &str) -> String {
    let input = match hex_str(payload) {
        Some(s) => s,
        None => return "bad-input".to_string(),
    };
    if input.len() > 8192 {
        // LONG inputs: the decoder runs on a thread with a SMALL stack (256 KiB) - its stack use must not grow with
        // the number of escapes (an overflow aborts the process: reported as ABORT); the bundle path is skipped
        let inp = input.clone();
        let h = std::thread::Builder::new().stack_size(256 << 10).spawn(move || run_direct(&inp)).unwrap();
        return match h.join() {
            Ok((s, w)) => format!("{};{};f:na;r:na;k:na;t:na;q:na;y:na", s, w),
            Err(_) => "s:panic;w:panic;f:na;r:na;k:na;t:na;q:na;y:na".to_string(),
        };
    }
    let (s, w) = run_direct(&input);
    let b = match panic::catch_unwind(|| through_bundle(&input)) {
        Ok(x) => x,
        Err(_) => vec!["panic".to_string(); 6],
    };
    format!("{};{};f:{};r:{};k:{};t:{};q:{};y:{}", s, w, b[0], b[1], b[2], b[3], b[4], b[5])
}

fn run_direct(input: &str) -> (String, String) {
    let input = input.to_string();
    let s = match panic::catch_unwind(|| {
        let r = unescape_unicode_to_string(&input);
        let kind = match &r {
            Cow::Borrowed(b) => {
                // borrowed must be the very same slice
                if b.as_ptr() == input.as_ptr() && b.len() == input.len() {
                    "b"
                } else {
                    "b?"
                }
            }
            Cow::Owned(_) => "o",
        };
        format!("s:ok:{}:{}", hex_enc(r.as_bytes()), kind)
    }) {
        Ok(x) => x,
        Err(_) => "s:panic".to_string(),
    };
    let w = match panic::catch_unwind(|| {
        let mut w = String::from("[");
        match unescape_unicode(&mut w, &input) {
            Ok(()) => format!("w:ok:{}", hex_enc(w.as_bytes())),
            Err(_) => "w:err".to_string(),
        }
    }) {
        Ok(x) => x,
        Err(_) => "w:panic".to_string(),
    };
    (s, w)
}

fn main() {
    fvh::run_main(run);
}
