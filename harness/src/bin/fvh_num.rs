//! area `num`: numbers keep their written precision and select the locale's plural category (C12)
//!
//! payload: `<locale> <val> <opts> <keys>`
//!   val   := L<hex number literal>            literal written in the FTL source
//!          | R<type>:<text>                   argument `$n` of the Rust number type, `text.parse::<type>()`
//!          | <value token of util::parse_tok> argument `$n` (s/o string, i/u/f number, t try_number, n FluentNumber::new)
//!   opts  := `-` (no NUMBER call) | `+` (NUMBER call without options)
//!          | name=Q<hex string literal>|name=D<number literal text> (`,`-separated)
//!   keys  := [*]I<identifier> | [*]D<number literal text>  (`,`-separated; `*` marks the default variant)
//!
//! The harness writes the FTL resource
//!   p = { VAL }
//!   q = { NUMBER(VAL, opts) }            (only when opts != `-`)
//!   s = { SEL -> [k0] 0 *[k1] 1 … }      (variant value = its index)
//!   r = { PROBE(SEL) }                   SEL = VAL or NUMBER(VAL, opts)
//! into a bundle for `<locale>` (isolation off, builtins added) and prints
//!   p=<hex text>:<#errors>;q=…|~;s=…;r=<what PROBE received: full FluentNumber + PluralOperands::from(&n)>
//!   ;ds=same|DIFF… (the select together with the other-precision select of the same value in one pattern)
//!   ;tp=same|DIFF…|na (the literal as a named argument of a parameterized term: printed and selected on)
//!   ;cs=same|DIFF-after-<kind>:<s on a concurrent bundle that resolved a select of that kind first>
use fluent_bundle::types::{
    FluentNumber, FluentNumberCurrencyDisplayStyle, FluentNumberStyle, FluentNumberType,
};
use fluent_bundle::{FluentArgs, FluentBundle, FluentResource, FluentValue};
use fvh::util::*;
use intl_pluralrules::operands::PluralOperands;
use std::cell::RefCell;
use unic_langid::LanguageIdentifier;

thread_local! {
    static PROBED: RefCell<String> = RefCell::new(String::new());
}

fn opt_usize(o: Option<usize>) -> String {
    match o {
        Some(n) => n.to_string(),
        None => "-".to_string(),
    }
}

fn canon_full(n: &FluentNumber) -> String {
    let o = &n.options;
    let ops = PluralOperands::from(n);
    format!(
        "N{}|ty={}|style={}|cur={}|cd={}|ug={}|minid={}|minfd={}|maxfd={}|minsd={}|maxsd={}|ops={},{},{},{},{},{}",
        n.value,
        match o.r#type {
            FluentNumberType::Cardinal => "cardinal",
            FluentNumberType::Ordinal => "ordinal",
        },
        match o.style {
            FluentNumberStyle::Decimal => "decimal",
            FluentNumberStyle::Currency => "currency",
            FluentNumberStyle::Percent => "percent",
        },
        match &o.currency {
            Some(c) => format!("x{}", hex_enc(c.as_bytes())),
            None => "-".to_string(),
        },
        match o.currency_display {
            FluentNumberCurrencyDisplayStyle::Symbol => "symbol",
            FluentNumberCurrencyDisplayStyle::Code => "code",
            FluentNumberCurrencyDisplayStyle::Name => "name",
        },
        if o.use_grouping { "1" } else { "0" },
        opt_usize(o.minimum_integer_digits),
        opt_usize(o.minimum_fraction_digits),
        opt_usize(o.maximum_fraction_digits),
        opt_usize(o.minimum_significant_digits),
        opt_usize(o.maximum_significant_digits),
        ops.n,
        ops.i,
        ops.v,
        ops.w,
        ops.f,
        ops.t
    )
}

fn probe<'a>(pos: &[FluentValue<'a>], _named: &FluentArgs) -> FluentValue<'a> {
    let s = match pos.first() {
        Some(FluentValue::Number(n)) => canon_full(n),
        Some(FluentValue::String(s)) => format!("S{}", hex_enc(s.as_bytes())),
        Some(FluentValue::Error) => "E".to_string(),
        Some(FluentValue::None) => "Z".to_string(),
        Some(FluentValue::Custom(_)) => "C".to_string(),
        None => "none".to_string(),
    };
    PROBED.with(|p| *p.borrow_mut() = s);
    FluentValue::None
}

enum Val {
    Lit(String),
    Arg(Tok),
    Typed(String, String),
}

fn typed_value(ty: &str, text: &str) -> Option<FluentValue<'static>> {
    macro_rules! go {
        ($t:ty) => {
            text.parse::<$t>().ok().map(FluentValue::from)
        };
    }
    match ty {
        "i8" => go!(i8),
        "i16" => go!(i16),
        "i32" => go!(i32),
        "i64" => go!(i64),
        "i128" => go!(i128),
        "isize" => go!(isize),
        "u8" => go!(u8),
        "u16" => go!(u16),
        "u32" => go!(u32),
        "u64" => go!(u64),
        "u128" => go!(u128),
        "usize" => go!(usize),
        "f32" => go!(f32),
        "f64" => go!(f64),
        _ => None,
    }
}

fn is_number_literal(s: &str) -> bool {
    let b = s.strip_prefix('-').unwrap_or(s);
    let (i, f) = match b.split_once('.') {
        Some((i, f)) => (i, Some(f)),
        None => (b, None),
    };
    let digits = |x: &str| !x.is_empty() && x.bytes().all(|c| c.is_ascii_digit());
    digits(i) && f.map_or(true, digits)
}

fn is_ident(s: &str) -> bool {
    let mut cs = s.chars();
    matches!(cs.next(), Some(c) if c.is_ascii_alphabetic())
        && cs.all(|c| c.is_ascii_alphanumeric() || c == '_' || c == '-')
}

fn run(payload: &str) -> String {
    let parts: Vec<&str> = payload.split(' ').collect();
    let [loc, val, opts, keys] = parts.as_slice() else {
        return "bad-case".to_string();
    };
    // `<locale>` may be a CHAIN `a+b+c`: the bundle gets all of them, its plural rules are those of the first
    let chain: Result<Vec<LanguageIdentifier>, _> = loc.split('+').map(|l| l.parse::<LanguageIdentifier>()).collect();
    let Ok(chain) = chain else {
        return "bad-locale".to_string();
    };
    let val = if let Some(h) = val.strip_prefix('L') {
        match hex_str(h) {
            Some(s) if is_number_literal(&s) => Val::Lit(s),
            _ => return "bad-case".to_string(),
        }
    } else if let Some(r) = val.strip_prefix('R') {
        match r.split_once(':') {
            Some((t, x)) => Val::Typed(t.to_string(), x.to_string()),
            None => return "bad-case".to_string(),
        }
    } else {
        match parse_tok(val) {
            Some(t) => Val::Arg(t),
            None => return "bad-case".to_string(),
        }
    };
    let val_expr = match &val {
        Val::Lit(s) => s.clone(),
        _ => "$n".to_string(),
    };
    // NUMBER call
    let sel_expr = if *opts == "-" {
        val_expr.clone()
    } else {
        let mut s = format!("NUMBER({}", val_expr);
        if *opts != "+" {
            for o in opts.split(',') {
                let Some((name, v)) = o.split_once('=') else {
                    return "bad-case".to_string();
                };
                if !is_ident(name) {
                    return "bad-case".to_string();
                }
                let lit = if let Some(h) = v.strip_prefix('Q') {
                    match hex_str(h) {
                        Some(x) if !x.contains(['"', '\\', '\n', '\r', '{', '}']) => format!("\"{}\"", x),
                        _ => return "bad-case".to_string(),
                    }
                } else if let Some(d) = v.strip_prefix('D') {
                    if !is_number_literal(d) {
                        return "bad-case".to_string();
                    }
                    d.to_string()
                } else {
                    return "bad-case".to_string();
                };
                s.push_str(&format!(", {}: {}", name, lit));
            }
        }
        s.push(')');
        s
    };
    let mut ftl = format!("p = {{ {} }}\n", val_expr);
    if *opts != "-" {
        ftl.push_str(&format!("q = {{ {} }}\n", sel_expr));
    }
    ftl.push_str(&format!("s = {{ {} ->\n", sel_expr));
    let mut variants = String::new();
    for (idx, k) in keys.split(',').enumerate() {
        let (def, k) = match k.strip_prefix('*') {
            Some(r) => ("*", r),
            None => (" ", k),
        };
        let key = if let Some(id) = k.strip_prefix('I') {
            if !is_ident(id) {
                return "bad-case".to_string();
            }
            id
        } else if let Some(d) = k.strip_prefix('D') {
            if !is_number_literal(d) {
                return "bad-case".to_string();
            }
            d
        } else {
            return "bad-case".to_string();
        };
        variants.push_str(&format!("   {}[{}] {}\n", def, key, idx));
    }
    ftl.push_str(&variants);
    ftl.push_str(" }\n");
    // the same value selected on in its OTHER form (with / without visible fraction digits), alone and together with
    // the first select in ONE pattern: each select must choose what it chooses alone
    let alt_expr = if *opts == "-" {
        format!("NUMBER({}, minimumFractionDigits: 1)", val_expr)
    } else {
        val_expr.clone()
    };
    ftl.push_str(&format!("s2 = {{ {} ->\n{} }}\n", alt_expr, variants));
    ftl.push_str(&format!("d = {{ {} ->\n{} }}|{{ {} ->\n{} }}\n", sel_expr, variants, alt_expr, variants));
    ftl.push_str(&format!("d2 = {{ {} ->\n{} }}|{{ {} ->\n{} }}\n", alt_expr, variants, sel_expr, variants));
    // a number LITERAL handed to a parameterized term as a named argument keeps its written precision
    let term_probe = matches!(val, Val::Lit(_)) && *opts == "-";
    if term_probe {
        ftl.push_str(&format!("-tt = {{ $n }}|{{ $n ->\n{} }}\n", variants));
        ftl.push_str(&format!("tp = {{ -tt(n: {}) }}\n", val_expr));
    }
    ftl.push_str(&format!("r = {{ PROBE({}) }}\n", sel_expr));

    let ftl_copy = ftl.clone();
    let chain2 = chain.clone();
    let res = match FluentResource::try_new(ftl) {
        Ok(r) => r,
        Err((_, errs)) => return format!("bad-ftl {}", errs.len()),
    };
    let mut bundle: FluentBundle<FluentResource> = FluentBundle::new(chain);
    bundle.set_use_isolating(false);
    if bundle.add_builtins().is_err() || bundle.add_function("PROBE", probe).is_err() {
        return "bad-bundle".to_string();
    }
    if bundle.add_resource(res).is_err() {
        return "bad-bundle".to_string();
    }
    let mut args = FluentArgs::new();
    match &val {
        Val::Lit(_) => {}
        Val::Arg(t) => args.set("n", tok_value(t)),
        Val::Typed(t, x) => match typed_value(t, x) {
            Some(v) => args.set("n", v),
            None => return "bad-case".to_string(),
        },
    }
    let fmt = |id: &str| -> String {
        let Some(msg) = bundle.get_message(id) else {
            return "~".to_string();
        };
        let Some(pat) = msg.value() else {
            return "~".to_string();
        };
        let mut errs = vec![];
        let out = bundle.format_pattern(pat, Some(&args), &mut errs);
        format!("{}:{}", hex_enc(out.as_bytes()), errs.len())
    };
    let p = fmt("p");
    let q = fmt("q");
    let s = fmt("s");
    let text = |id: &str| -> String {
        let Some(pat) = bundle.get_message(id).and_then(|m| m.value()) else {
            return "~".to_string();
        };
        let mut errs = vec![];
        bundle.format_pattern(pat, Some(&args), &mut errs).into_owned()
    };
    let (ts, ts2) = (text("s"), text("s2"));
    let ds = if text("d") != format!("{}|{}", ts, ts2) {
        format!("DIFF:d={}", hex_enc(text("d").as_bytes()))
    } else if text("d2") != format!("{}|{}", ts2, ts) {
        format!("DIFF:d2={}", hex_enc(text("d2").as_bytes()))
    } else {
        "same".to_string()
    };
    let tp = if !term_probe {
        "na".to_string()
    } else if text("tp") != format!("{}|{}", text("p"), ts) {
        format!("DIFF:{}", hex_enc(text("tp").as_bytes()))
    } else {
        "same".to_string()
    };
    // the same selection on CONCURRENT bundles whose formatter cache already holds the plural rules of one kind
    // (cardinal resp. ordinal) from an earlier select: the category must not depend on the flavour or the history
    let mut cs = String::from("same");
    for warm in ["cardinal", "ordinal"] {
        let src = format!(
            "{}w = {{ NUMBER(2, type: \"{}\") ->\n [one] a\n [two] b\n [few] c\n *[other] d\n }}\n",
            ftl_copy, warm
        );
        let Ok(res) = FluentResource::try_new(src) else {
            cs = "bad-ftl".to_string();
            break;
        };
        let mut cb: fluent_bundle::concurrent::FluentBundle<FluentResource> =
            fluent_bundle::concurrent::FluentBundle::new_concurrent(chain2.clone());
        cb.set_use_isolating(false);
        if cb.add_builtins().is_err() || cb.add_function("PROBE", probe).is_err() || cb.add_resource(res).is_err() {
            cs = "bad-bundle".to_string();
            break;
        }
        let cfmt = |id: &str| -> String {
            let Some(msg) = cb.get_message(id) else {
                return "~".to_string();
            };
            let Some(pat) = msg.value() else {
                return "~".to_string();
            };
            let mut errs = vec![];
            let out = cb.format_pattern(pat, Some(&args), &mut errs);
            format!("{}:{}", hex_enc(out.as_bytes()), errs.len())
        };
        let _ = cfmt("w");
        let s2 = cfmt("s");
        if s2 != s {
            cs = format!("DIFF-after-{}:{}", warm, s2);
            break;
        }
    }
    PROBED.with(|p| p.borrow_mut().clear());
    let _ = fmt("r");
    let r = PROBED.with(|p| p.borrow().clone());
    format!("p={};q={};s={};r={};cs={};ds={};tp={}", p, q, s, r, cs, ds, tp)
}

fn main() {
    fvh::run_main(run);
}
