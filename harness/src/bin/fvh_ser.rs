//! area `ser`: `ser <0|1 with_junk> <hex src>` →
//! `S <hex serialize(parse src)> T <tree> T2 <tree of reparse> S2 <hex second serialisation>`
use fluent_syntax::parser::parse;
use fluent_syntax::serializer::{serialize_with_options, Options};
use fvh::sexp;
use fvh::util::*;

fn run(payload: &str) -> String {
    let (wj, h) = match payload.split_once(' ') {
        Some(x) => x,
        None => return "bad-case".to_string(),
    };
    let src = match hex_str(h) {
        Some(s) => s,
        None => return "bad-case".to_string(),
    };
    let options = Options {
        with_junk: wj == "1",
    };
    let t = parse(src.as_str()).unwrap_or_else(|(res, _)| res);
    // the plain entry point `serialize` = default options = Junk dropped
    let out = if wj == "1" { serialize_with_options(&t, options) } else { fluent_syntax::serializer::serialize(&t) };
    let t2 = parse(out.as_str()).unwrap_or_else(|(res, _)| res);
    let out2 = serialize_with_options(&t2, options);
    // the owned instantiation must serialise identically
    let to = parse(src.clone()).unwrap_or_else(|(res, _)| res);
    let outo = serialize_with_options(&to, options);
    let mut r = format!(
        "S {} T {} T2 {} S2 {}",
        hex_enc(out.as_bytes()),
        sexp::resource(&t),
        sexp::resource(&t2),
        hex_enc(out2.as_bytes())
    );
    if outo != out {
        r.push_str(" BORROWED!=OWNED");
    }
    r
}

fn main() {
    fvh::run_main(run);
}
