//! area `pseudo`: pseudolocalisation (C20)
//! payload = `<dom|plain> <flipped><elongate><markers> <hex input>`
//! observation: `ok:<hex>;m:<hex|na>;n:<hex|na>`
//!   ok = fluent_pseudo::transform / transform_dom called directly
//!   m  = `m = <input>` formatted by a FluentBundle with set_transform(the same function)   (single text element)
//!   n  = `n = <input>{ "|" }<input>` formatted the same way                               (two text elements)
//!        `na` when the input cannot be written as inline FTL text unchanged
use fluent_bundle::{FluentBundle, FluentResource};
use fvh::util::*;
use std::borrow::Cow;

macro_rules! dom_fn {
    ($name:ident, $f:expr, $e:expr, $m:expr) => {
        fn $name(s: &str) -> Cow<'_, str> {
            fluent_pseudo::transform_dom(s, $f, $e, $m)
        }
    };
}
macro_rules! plain_fn {
    ($name:ident, $f:expr, $e:expr) => {
        fn $name(s: &str) -> Cow<'_, str> {
            fluent_pseudo::transform(s, $f, $e)
        }
    };
}
dom_fn!(d000, false, false, false);
dom_fn!(d001, false, false, true);
dom_fn!(d010, false, true, false);
dom_fn!(d011, false, true, true);
dom_fn!(d100, true, false, false);
dom_fn!(d101, true, false, true);
dom_fn!(d110, true, true, false);
dom_fn!(d111, true, true, true);
plain_fn!(p00, false, false);
plain_fn!(p01, false, true);
plain_fn!(p10, true, false);
plain_fn!(p11, true, true);

fn pick(dom: bool, f: bool, e: bool, m: bool) -> fn(&str) -> Cow<'_, str> {
    if dom {
        match (f, e, m) {
            (false, false, false) => d000,
            (false, false, true) => d001,
            (false, true, false) => d010,
            (false, true, true) => d011,
            (true, false, false) => d100,
            (true, false, true) => d101,
            (true, true, false) => d110,
            (true, true, true) => d111,
        }
    } else {
        match (f, e) {
            (false, false) => p00,
            (false, true) => p01,
            (true, false) => p10,
            (true, true) => p11,
        }
    }
}

/// can `input` be written after `m = ` / after a placeable as a single line of text that the parser returns
/// unchanged as one TextElement?
fn inline_text(input: &str) -> bool {
    if input.is_empty() {
        return false;
    }
    if input.chars().any(|c| c == '{' || c == '}' || c == '\n' || c == '\r') {
        return false;
    }
    let first = input.chars().next().unwrap();
    let last = input.chars().last().unwrap();
    !(first == ' ' || last == ' ' || first == '[' || first == '.' || first == '*')
}

fn through_bundle(input: &str, func: fn(&str) -> Cow<'_, str>) -> Vec<String> {
    let na = || vec!["na".to_string(); 7];
    if !inline_text(input) {
        return na();
    }
    // m: one text element; n: two around a literal; s: text before, inside and after a select whose selector is a
    // MISSING argument (resolves to an error value, default variant taken); r: text reached through a term reference,
    // directly, and through a message reference; l: a text-only MULTI-LINE pattern (one text element per line);
    // u: text around references that do NOT resolve (unknown message, term, attribute, function) - the `{name}` placeholders
    // written for them are not text of the pattern
    let src = format!(
        "m = {i}\nn = {i}{{ \"|\" }}{i}\ns = {i}{{ $missing ->\n    [a] x\n   *[b] {i}\n}}{i}\n-t = {i}\nr = {{ -t }}{i}{{ m }}\nl =\n    {i}\n    {i}\nu = {i}{{ nope }}{i}{{ -nope }}{{ m.nope }}{{ NOPE() }}\n{q}",
        i = input,
        // q: a pattern that is exactly ONE string-literal placeable - a literal is not text of the pattern, no transform
        q = if input.chars().any(|c| c == '"' || c == '\\') { String::new() } else { format!("q = {{ \"{}\" }}\n", input) }
    );
    // the transform in force is the one installed LAST, whatever else was configured before or after it: the same bundle
    // is built with four configuration histories (hist 0 = set_transform only), all of which must answer alike
    let mk = |hist: u8| -> Option<FluentBundle<FluentResource>> {
        let res = FluentResource::try_new(src.clone()).ok()?;
        let mut bundle: FluentBundle<FluentResource> = FluentBundle::new(vec!["en-US".parse().unwrap()]);
        bundle.set_use_isolating(false);
        let noop_formatter = |_: &fluent_bundle::FluentValue, _: &intl_memoizer::IntlLangMemoizer| -> Option<String> { None };
        match hist {
            1 => {
                bundle.set_transform(Some(func));
                bundle.set_formatter(None);
            }
            2 => {
                bundle.set_formatter(Some(noop_formatter));
                bundle.set_transform(Some(func));
                bundle.set_formatter(None);
            }
            3 => {
                bundle.set_transform(Some(|s: &str| -> Cow<str> { Cow::Owned(s.to_ascii_uppercase()) }));
                bundle.set_transform(None);
                bundle.set_use_isolating(true);
                bundle.set_use_isolating(false);
                bundle.set_formatter(Some(noop_formatter));
                bundle.set_transform(Some(func));
            }
            _ => bundle.set_transform(Some(func)),
        }
        bundle.add_resource(res).ok()?;
        Some(bundle)
    };
    let bundle = match mk(0) {
        Some(b) => b,
        None => return na(),
    };
    let others: Vec<FluentBundle<FluentResource>> = (1..=3).filter_map(mk).collect();
    let mut out = vec![];
    for id in ["m", "n", "s", "r", "l", "q", "u"] {
        let o = match bundle.get_message(id).and_then(|m| m.value()) {
            Some(p) => {
                let mut errs = vec![];
                let v = bundle.format_pattern(p, None, &mut errs);
                // the writer entry point must apply the transform exactly like the string entry point
                let mut w = String::new();
                let mut errs2 = vec![];
                let _ = bundle.write_pattern(&mut w, p, None, &mut errs2);
                let mut hist_diff = None;
                for (h, ob) in others.iter().enumerate() {
                    if let Some(op) = ob.get_message(id).and_then(|m| m.value()) {
                        let mut e3 = vec![];
                        let ov = ob.format_pattern(op, None, &mut e3).into_owned();
                        let mut ow = String::new();
                        let mut e4 = vec![];
                        let _ = ob.write_pattern(&mut ow, op, None, &mut e4);
                        if ov != v || ow != v {
                            hist_diff = Some(format!("CONFIG-HISTORY-{}-DIFFERS:{}/{}", h + 1, hex_enc(ov.as_bytes()), hex_enc(ow.as_bytes())));
                            break;
                        }
                    }
                }
                if let Some(d) = hist_diff {
                    d
                } else if w != v {
                    format!("WRITE-DIFFERS:{}", hex_enc(w.as_bytes()))
                } else if errs.is_empty() || (id == "s" && errs.len() == 1) || (id == "u" && errs.len() == 4) {
                    hex_enc(v.as_bytes())
                } else {
                    format!("err{}", errs.len())
                }
            }
            None => "na".to_string(),
        };
        out.push(o);
    }
    out
}

fn run(payload: &str) -> String {
    let p: Vec<&str> = payload.split(' ').collect();
    if p.len() != 3 || p[1].len() != 3 {
        return "bad-input".to_string();
    }
    let dom = match p[0] {
        "dom" => true,
        "plain" => false,
        _ => return "bad-input".to_string(),
    };
    let fl: Vec<bool> = p[1].chars().map(|c| c == '1').collect();
    let input = match hex_str(p[2]) {
        Some(s) => s,
        None => return "bad-input".to_string(),
    };
    let func = pick(dom, fl[0], fl[1], fl[2]);
    let direct = if dom {
        fluent_pseudo::transform_dom(&input, fl[0], fl[1], fl[2])
    } else {
        fluent_pseudo::transform(&input, fl[0], fl[1])
    };
    let o = through_bundle(&input, func);
    // the result is a function of the arguments: the same call made while ANOTHER thread transforms the same text in
    // another style (flipped / elongated the other way round) gives the same result, for both of them
    let first_panics = FIRST_CALL_PANICS.load(std::sync::atomic::Ordering::SeqCst);
    let x = if first_panics > 0 {
        format!("RACE:FIRST-CALL-PANICS-{}", first_panics)
    } else if dom && !input.is_empty() {
        let other = fluent_pseudo::transform_dom(&input, !fl[0], !fl[1], fl[2]).into_owned();
        let go = std::sync::atomic::AtomicUsize::new(0);
        let run = |flipped: bool, elongate: bool, expect: &str| -> Option<String> {
            go.fetch_add(1, std::sync::atomic::Ordering::SeqCst);
            while go.load(std::sync::atomic::Ordering::SeqCst) < 2 {
                std::hint::spin_loop();
            }
            for _ in 0..40 {
                let got = fluent_pseudo::transform_dom(&input, flipped, elongate, fl[2]);
                if got != expect {
                    return Some(got.into_owned());
                }
            }
            None
        };
        let (a, b) = std::thread::scope(|sc| {
            let h1 = sc.spawn(|| run(fl[0], fl[1], &direct));
            let h2 = sc.spawn(|| run(!fl[0], !fl[1], &other));
            (h1.join().unwrap_or(Some("panic".into())), h2.join().unwrap_or(Some("panic".into())))
        });
        match a.or(b) {
            None => "same".to_string(),
            Some(got) => format!("RACE:{}", hex_enc(got.as_bytes())),
        }
    } else {
        "same".to_string()
    };
    format!("ok:{};m:{};n:{};s:{};r:{};l:{};q:{};u:{};x:{}", hex_enc(direct.as_bytes()), o[0], o[1], o[2], o[3], o[4], o[5], o[6], x)
}

/// set when one of the threads that made the FIRST transform_dom calls of this process (all at once) panicked
static FIRST_CALL_PANICS: std::sync::atomic::AtomicUsize = std::sync::atomic::AtomicUsize::new(0);

fn main() {
    // the first use of the process happens on 8 threads at the same instant: whatever is initialised lazily on first use
    // (compiled regexes, tables) must be ready for every one of them
    std::panic::set_hook(Box::new(|_| {}));
    let go = std::sync::Barrier::new(8);
    std::thread::scope(|sc| {
        let hs: Vec<_> = (0..8)
            .map(|i| {
                let go = &go;
                sc.spawn(move || {
                    go.wait();
                    fluent_pseudo::transform_dom("Hello <b>World</b> &amp; more", i % 2 == 0, i % 3 == 0, false).into_owned()
                })
            })
            .collect();
        for h in hs {
            if h.join().is_err() {
                FIRST_CALL_PANICS.fetch_add(1, std::sync::atomic::Ordering::SeqCst);
            }
        }
    });
    fvh::run_main(run);
}
