//! area `fb` (C16): one `fluent_fallback::Bundles` instance over an in-memory `BundleGenerator`
//! (sync iterator and async stream) built from the case line's per-locale availability matrix;
//! a history of requests through all six API shapes.  See lean/FluentModel/Drv/FbDrv.lean for the
//! case line and observation format.
#[path = "../fb_common.rs"]
mod fb_common;
use fb_common::*;

use fluent_bundle::FluentResource;
use fluent_fallback::generator::{BundleGenerator, FluentBundleResult};
use fluent_fallback::types::ResourceId;
use fluent_fallback::{Bundles, LocalizationError};
use rustc_hash::FxHashSet;
use std::cell::Cell;
use std::rc::Rc;
use unic_langid::LanguageIdentifier;

struct BSpec {
    locale: Option<LanguageIdentifier>,
    /// further locales of the same bundle (`b:en-GB+en:...` = `FluentBundle::new(vec![en-GB, en])`); errors name the first
    more: Vec<LanguageIdentifier>,
    loc_txt: String,
    brk: u8,
    entries: Vec<(String, char)>,
}

struct Gen {
    specs: Rc<Vec<BSpec>>,
    built: Rc<Cell<usize>>,
    slow: bool,
}

/// a waker that only records that it was used
struct Flag(std::sync::atomic::AtomicBool);
impl std::task::Wake for Flag {
    fn wake(self: std::sync::Arc<Self>) {
        self.0.store(true, std::sync::atomic::Ordering::SeqCst);
    }
}

thread_local! {
    static STALLED: Cell<bool> = const { Cell::new(false) };
}

/// drive a request to completion by hand: poll, and poll again when its waker was used.  A request that answers Pending
/// without anybody holding a used waker would sleep for ever under a real executor: recorded as STALLED (the request is
/// then abandoned and the op's observation is `STALLED`).
fn drive<F: std::future::Future>(f: F) -> Option<F::Output> {
    let flag = std::sync::Arc::new(Flag(std::sync::atomic::AtomicBool::new(false)));
    let waker = std::task::Waker::from(flag.clone());
    let mut cx = std::task::Context::from_waker(&waker);
    let mut f = Box::pin(f);
    for _ in 0..100_000 {
        if let std::task::Poll::Ready(r) = f.as_mut().poll(&mut cx) {
            return Some(r);
        }
        if !flag.0.swap(false, std::sync::atomic::Ordering::SeqCst) {
            STALLED.with(|s| s.set(true));
            return None;
        }
    }
    STALLED.with(|s| s.set(true));
    None
}

/// a request that is started, polled ONCE and then dropped (a timeout wrapper, `select!`, a view that went away)
fn poll_once_and_drop<F: std::future::Future>(f: F) {
    let flag = std::sync::Arc::new(Flag(std::sync::atomic::AtomicBool::new(false)));
    let waker = std::task::Waker::from(flag);
    let mut cx = std::task::Context::from_waker(&waker);
    let mut f = Box::pin(f);
    let _ = f.as_mut().poll(&mut cx);
}

struct Seq {
    specs: Rc<Vec<BSpec>>,
    built: Rc<Cell<usize>>,
    idx: usize,
    /// `cfg:p`: the stream answers Pending (after waking the task) once before every item and before the end
    slow: bool,
    parked: bool,
}

impl Seq {
    fn produce(&mut self) -> Option<FluentBundleResult<FluentResource>> {
        let s = self.specs.get(self.idx)?;
        self.idx += 1;
        self.built.set(self.built.get() + 1);
        Some(build_bundle(s.locale.iter().chain(s.more.iter()).cloned().collect(), &s.loc_txt, s.brk, &s.entries))
    }
}

impl Iterator for Seq {
    type Item = FluentBundleResult<FluentResource>;
    fn next(&mut self) -> Option<Self::Item> {
        self.produce()
    }
}

impl futures::Stream for Seq {
    type Item = FluentBundleResult<FluentResource>;
    fn poll_next(
        mut self: std::pin::Pin<&mut Self>,
        cx: &mut std::task::Context<'_>,
    ) -> std::task::Poll<Option<Self::Item>> {
        if self.slow && !self.parked {
            self.parked = true;
            cx.waker().wake_by_ref();
            return std::task::Poll::Pending;
        }
        self.parked = false;
        self.produce().into()
    }
}

// the default (empty) prefetch hooks
impl fluent_fallback::generator::BundleIterator for Seq {}
impl fluent_fallback::generator::BundleStream for Seq {}

impl BundleGenerator for Gen {
    type Resource = FluentResource;
    type LocalesIter = std::vec::IntoIter<LanguageIdentifier>;
    type Iter = Seq;
    type Stream = Seq;

    fn bundles_iter(&self, _locales: Self::LocalesIter, _res_ids: FxHashSet<ResourceId>) -> Seq {
        Seq { specs: self.specs.clone(), built: self.built.clone(), idx: 0, slow: self.slow, parked: false }
    }

    fn bundles_stream(&self, _locales: Self::LocalesIter, _res_ids: FxHashSet<ResourceId>) -> Seq {
        Seq { specs: self.specs.clone(), built: self.built.clone(), idx: 0, slow: self.slow, parked: false }
    }
}

fn parse_bundle(seg: &str) -> Option<BSpec> {
    let p: Vec<&str> = seg.split(':').collect();
    match p.as_slice() {
        ["b", loc, brk, ents] => {
            let mut more = vec![];
            let locale = if *loc == "_" {
                None
            } else {
                let mut first = None;
                for (i, part) in loc.split('+').enumerate() {
                    let l: LanguageIdentifier = part.parse().ok()?;
                    if l.to_string() != part {
                        return None; // only canonical spellings, so that both sides print the same text
                    }
                    if i == 0 {
                        first = Some(l);
                    } else {
                        more.push(l);
                    }
                }
                first
            };
            let brk: u8 = brk.parse().ok()?;
            if brk > 4 {
                return None;
            }
            Some(BSpec { locale, more, loc_txt: loc.to_string(), brk, entries: parse_entries(ents)? })
        }
        _ => None,
    }
}

fn run(payload: &str) -> String {
    let segs: Vec<&str> = payload.split(';').collect();
    let sync = match segs.first() {
        Some(&"cfg:s") => true,
        Some(&"cfg:a") | Some(&"cfg:p") | Some(&"cfg:q") => false,
        _ => return "bad-case".to_string(),
    };
    let nb = segs[1..].iter().take_while(|s| s.starts_with("b:")).count();
    let specs: Option<Vec<BSpec>> = segs[1..1 + nb].iter().map(|s| parse_bundle(s)).collect();
    let specs = match specs {
        Some(s) => Rc::new(s),
        None => return "bad-case".to_string(),
    };
    let ops = &segs[1 + nb..];
    let built = Rc::new(Cell::new(0usize));
    let generator = Gen { specs: specs.clone(), built: built.clone(), slow: segs[0] == "cfg:p" || segs[0] == "cfg:q" };
    let shadow = segs[0] == "cfg:q";
    let provider: Vec<LanguageIdentifier> = specs.iter().filter_map(|s| s.locale.clone()).collect();
    let bundles: Bundles<Gen> = Bundles::new(sync, FxHashSet::default(), &generator, &provider);

    let mut errors: Vec<LocalizationError> = vec![];
    let mut outs: Vec<String> = vec![];
    for op in ops {
        let mut p: Vec<&str> = op.split(':').collect();
        let before: Vec<String> = errors.iter().map(canon_loc_err).collect();
        // `xv:`, `xvv:`, `xmm:` - the same request is first started, polled once and DROPPED (cancelled), then made for real
        if let [api, arg] = p.as_slice() {
            if let Some(base) = api.strip_prefix('x') {
                let mut scratch: Vec<LocalizationError> = vec![];
                let ok = match base {
                    "v" => parse_key(arg).map(|k| {
                        let args = key_args(&k);
                        poll_once_and_drop(bundles.format_value(&k.id, args.as_ref(), &mut scratch));
                    }),
                    "vv" => parse_keys(arg).map(|ks| {
                        let keys = l10n_keys(&ks);
                        poll_once_and_drop(bundles.format_values(&keys, &mut scratch));
                    }),
                    "mm" => parse_keys(arg).map(|ks| {
                        let keys = l10n_keys(&ks);
                        poll_once_and_drop(bundles.format_messages(&keys, &mut scratch));
                    }),
                    _ => None,
                };
                if ok.is_none() {
                    outs.push("bad-op".to_string());
                    continue;
                }
                p = vec![base, arg];
            }
        }
        let res: Option<String> = match p.as_slice() {
            ["clr"] => {
                errors.clear();
                outs.push("ok".to_string());
                continue;
            }
            // `pf`: Bundles::prefetch_sync / prefetch_async (whichever the mode allows).  The source's hook is the default,
            // empty one: a prefetch generates no bundle, answers nothing, reports nothing - at any point of a history
            ["pf"] => {
                if sync {
                    bundles.prefetch_sync();
                    outs.push("ok".to_string());
                } else {
                    outs.push(match drive(bundles.prefetch_async()) {
                        Some(()) => "ok".to_string(),
                        None => "STALLED".to_string(),
                    });
                }
                if errors.iter().map(canon_loc_err).collect::<Vec<_>>() != before {
                    outs.push("PREFETCH-REPORTED-ERRORS".to_string());
                }
                continue;
            }
            ["v", k] if shadow => parse_key(k).map(|k| {
                // cfg:q - a second, identical request is in flight on the same Bundles at the same time
                let args = key_args(&k);
                let mut scratch: Vec<LocalizationError> = vec![];
                let (r, r2) = match drive(async {
                    futures::join!(
                        bundles.format_value(&k.id, args.as_ref(), &mut errors),
                        bundles.format_value(&k.id, args.as_ref(), &mut scratch)
                    )
                }) {
                    Some(x) => x,
                    None => return "STALLED".to_string(),
                };
                if show_val(&r2) != show_val(&r) {
                    format!("{} SHADOW-DISAGREE({})", show_val(&r), show_val(&r2))
                } else {
                    show_val(&r)
                }
            }),
            ["vv", ks] if shadow => parse_keys(ks).map(|ks| {
                let keys = l10n_keys(&ks);
                let mut scratch: Vec<LocalizationError> = vec![];
                let (r, r2) = match drive(async {
                    futures::join!(bundles.format_values(&keys, &mut errors), bundles.format_values(&keys, &mut scratch))
                }) {
                    Some(x) => x,
                    None => return "STALLED".to_string(),
                };
                if show_vals(&r2) != show_vals(&r) {
                    format!("{} SHADOW-DISAGREE({})", show_vals(&r), show_vals(&r2))
                } else {
                    show_vals(&r)
                }
            }),
            ["v", k] => parse_key(k).map(|k| {
                let args = key_args(&k);
                let r = match drive(bundles.format_value(&k.id, args.as_ref(), &mut errors)) {
                    Some(r) => r,
                    None => return "STALLED".to_string(),
                };
                show_val(&r)
            }),
            ["vs", k] => parse_key(k).map(|k| {
                let args = key_args(&k);
                match bundles.format_value_sync(&k.id, args.as_ref(), &mut errors) {
                    Ok(r) => format!("ok:{}", show_val(&r)),
                    Err(e) => format!("err:{}", canon_loc_err(&e)),
                }
            }),
            ["vv", ks] => parse_keys(ks).map(|ks| {
                let keys = l10n_keys(&ks);
                let r = match drive(bundles.format_values(&keys, &mut errors)) {
                    Some(r) => r,
                    None => return "STALLED".to_string(),
                };
                show_vals(&r)
            }),
            ["vvs", ks] => parse_keys(ks).map(|ks| {
                let keys = l10n_keys(&ks);
                match bundles.format_values_sync(&keys, &mut errors) {
                    Ok(r) => format!("ok:{}", show_vals(&r)),
                    Err(e) => format!("err:{}", canon_loc_err(&e)),
                }
            }),
            ["mm", ks] => parse_keys(ks).map(|ks| {
                let keys = l10n_keys(&ks);
                let r = match drive(bundles.format_messages(&keys, &mut errors)) {
                    Some(r) => r,
                    None => return "STALLED".to_string(),
                };
                show_msgs(&r)
            }),
            ["mms", ks] => parse_keys(ks).map(|ks| {
                let keys = l10n_keys(&ks);
                match bundles.format_messages_sync(&keys, &mut errors) {
                    Ok(r) => format!("ok:{}", show_msgs(&r)),
                    Err(e) => format!("err:{}", canon_loc_err(&e)),
                }
            }),
            _ => None,
        };
        match res {
            None => outs.push("bad-op".to_string()),
            Some(r) => {
                let n0 = before.len();
                let kept = errors.len() >= n0
                    && errors[..n0].iter().map(canon_loc_err).collect::<Vec<_>>() == before;
                let tail = if kept { show_errs(&errors[n0..]) } else { format!("PREFIX-CHANGED{}", show_errs(&errors)) };
                outs.push(format!("{}|E{}|g{}", r, tail, built.get()));
            }
        }
    }
    outs.join(";")
}

fn main() {
    fvh::run_main(run);
}
