//! area `spec`: `spec <hex src>[|<hex src>…] [~ <hex expected>]` → per source
//! `W ? G ? M <joinText(full parser tree)> E <error count> R <joinText(runtime parser tree)>`.
//! The implementation has no grammar of its own (`W`/`G` are printed by the Lean side only, from
//! `SpecGrammar`); the python module compares the spec tree, this tree and the generator's tree.
//! `joinText` merges adjacent text elements of every pattern (the Rust parser emits one per line).
use fluent_syntax::ast::*;
use fluent_syntax::parser::{parse, parse_runtime, ParserError};
use fvh::sexp;
use fvh::util::*;

fn join_inline(e: &mut InlineExpression<String>) {
    match e {
        InlineExpression::FunctionReference { arguments, .. } => join_args(arguments),
        InlineExpression::TermReference {
            arguments: Some(a), ..
        } => join_args(a),
        InlineExpression::Placeable { expression } => join_expr(expression),
        _ => {}
    }
}

fn join_args(a: &mut CallArguments<String>) {
    for p in &mut a.positional {
        join_inline(p);
    }
    for n in &mut a.named {
        join_inline(&mut n.value);
    }
}

fn join_expr(e: &mut Expression<String>) {
    match e {
        Expression::Inline(i) => join_inline(i),
        Expression::Select { selector, variants } => {
            join_inline(selector);
            for v in variants {
                join_pattern(&mut v.value);
            }
        }
    }
}

fn join_pattern(p: &mut Pattern<String>) {
    let mut out: Vec<PatternElement<String>> = Vec::new();
    for el in p.elements.drain(..) {
        match el {
            PatternElement::TextElement { value } => {
                if let Some(PatternElement::TextElement { value: prev }) = out.last_mut() {
                    prev.push_str(&value);
                } else {
                    out.push(PatternElement::TextElement { value });
                }
            }
            PatternElement::Placeable { mut expression } => {
                join_expr(&mut expression);
                out.push(PatternElement::Placeable { expression });
            }
        }
    }
    p.elements = out;
}

fn join_text(r: &mut Resource<String>) {
    for e in &mut r.body {
        match e {
            Entry::Message(m) => {
                if let Some(v) = &mut m.value {
                    join_pattern(v);
                }
                for a in &mut m.attributes {
                    join_pattern(&mut a.value);
                }
            }
            Entry::Term(t) => {
                join_pattern(&mut t.value);
                for a in &mut t.attributes {
                    join_pattern(&mut a.value);
                }
            }
            _ => {}
        }
    }
}

fn show(r: Result<Resource<String>, (Resource<String>, Vec<ParserError>)>) -> (String, usize) {
    let (mut res, n) = match r {
        Ok(res) => (res, 0),
        Err((res, errs)) => (res, errs.len()),
    };
    join_text(&mut res);
    (sexp::resource(&res), n)
}

fn run_one(payload: &str) -> String {
    let src = match hex_str(payload) {
        Some(s) => s,
        None => return "bad-case".to_string(),
    };
    let (m, e) = show(parse(src.clone()));
    let (r, _) = show(parse_runtime(src));
    format!("W ? G ? M {} E {} R {}", m, e, r)
}

fn run(payload: &str) -> String {
    let srcs = payload.split(' ').next().unwrap_or("");
    srcs.split('|').map(run_one).collect::<Vec<_>>().join(" | ")
}

fn main() {
    let t = std::thread::Builder::new()
        .stack_size(8 << 20)
        .spawn(|| fvh::run_main(run))
        .unwrap();
    let _ = t.join();
}
