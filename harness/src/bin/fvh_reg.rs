//! area `reg`: histories of FluentBundle registry operations (C10)
//! case format: see lean/FluentModel/Drv/RegDrv.lean
use fluent_bundle::{FluentBundle, FluentError, FluentResource, FluentValue};
use fluent_bundle::resolver::errors::{ReferenceKind, ResolverError};
use fluent_syntax::ast;
use fvh::util::*;

fn parse_keep(src: String) -> FluentResource {
    // keep the resource even when it has syntax errors, as the API allows
    match FluentResource::try_new(src) {
        Ok(r) => r,
        Err((r, _)) => r,
    }
}

fn show_err(e: &FluentError) -> String {
    match e {
        FluentError::Overriding { kind, id } => {
            let k = match kind.to_string().as_str() {
                "message" => "M",
                "term" => "T",
                "function" => "F",
                _ => "?",
            };
            format!("{}={}", k, hex_enc(id.as_bytes()))
        }
        other => format!("unexpected:{:?}", other),
    }
}

/// format the single-placeable pattern `probe = { <expr> }` against the bundle
type Shared = std::rc::Rc<FluentResource>;

fn probe(bundle: &FluentBundle<Shared>, expr: &str) -> Option<(String, Vec<FluentError>)> {
    let res = FluentResource::try_new(format!("probe = {{ {} }}\n", expr)).ok()?;
    let pat = match res.get_entry(0)? {
        ast::Entry::Message(m) => m.value.as_ref()?,
        _ => return None,
    };
    let mut errs = vec![];
    let s = bundle.format_pattern(pat, None, &mut errs).into_owned();
    Some((s, errs))
}

fn run(payload: &str) -> String {
    // resources are held as `Rc<FluentResource>`: `add`/`addov` hand over a fresh handle every time,
    // `addh`/`addovh` hand over THE SAME handle for the same description (kept in `handles`)
    let mut bundle: FluentBundle<Shared> = FluentBundle::new(vec!["en-US".parse().unwrap()]);
    bundle.set_use_isolating(false);
    let mut handles: std::collections::HashMap<String, Shared> = std::collections::HashMap::new();
    let mut builtin_tag: Option<usize> = None;
    let mut outs: Vec<String> = vec![];
    for (idx, op) in payload.split(';').enumerate() {
        let p: Vec<&str> = op.split(':').collect();
        let o: String = match p.as_slice() {
            ["add", r] | ["addh", r] => match render_res(r) {
                Some(src) => {
                    let res: Shared = if p[0] == "addh" {
                        handles.entry(r.to_string()).or_insert_with(|| Shared::new(parse_keep(src))).clone()
                    } else {
                        Shared::new(parse_keep(src))
                    };
                    let shape = res_shape(&res);
                    match bundle.add_resource(res) {
                        Ok(()) => format!("{}|ok", shape),
                        Err(errs) => {
                            if errs.is_empty() {
                                format!("{}|empty-error-list", shape)
                            } else {
                                let v: Vec<String> = errs.iter().map(show_err).collect();
                                format!("{}|{}", shape, v.join(","))
                            }
                        }
                    }
                }
                None => "bad-op".into(),
            },
            ["addov", r] | ["addovh", r] => match render_res(r) {
                Some(src) => {
                    let res: Shared = if p[0] == "addovh" {
                        handles.entry(r.to_string()).or_insert_with(|| Shared::new(parse_keep(src))).clone()
                    } else {
                        Shared::new(parse_keep(src))
                    };
                    let shape = res_shape(&res);
                    bundle.add_resource_overriding(res);
                    format!("{}|ok", shape)
                }
                None => "bad-op".into(),
            },
            ["fn", id] => match hex_str(id) {
                Some(id) => {
                    let tag = idx;
                    // the id NUMBER is registered through `add_builtins` (the only built-in): same registry rules
                    let r = if id == "NUMBER" {
                        let r = bundle.add_builtins();
                        if r.is_ok() {
                            builtin_tag = Some(tag);
                        }
                        r
                    } else {
                        bundle.add_function(&id, move |_, _| FluentValue::from(format!("F{}", tag)))
                    };
                    match r {
                        Ok(()) => "ok".into(),
                        Err(e) => show_err(&e),
                    }
                }
                None => "bad-op".into(),
            },
            ["has", id] => match hex_str(id) {
                Some(id) => (if bundle.has_message(&id) { "1" } else { "0" }).into(),
                None => "bad-op".into(),
            },
            ["msg", id] => match hex_str(id) {
                Some(id) => match bundle.get_message(&id) {
                    None => "none".into(),
                    Some(m) => {
                        let v = match m.value() {
                            None => "~".to_string(),
                            Some(p) => pat_text(p),
                        };
                        let a: Vec<String> = m
                            .attributes()
                            .map(|a| format!("{}={}", hex_enc(a.id().as_bytes()), pat_text(a.value())))
                            .collect();
                        format!("some:{}:{}", v, a.join("+"))
                    }
                },
                None => "bad-op".into(),
            },
            ["attr", id, name] => match (hex_str(id), hex_str(name)) {
                (Some(id), Some(name)) => match bundle.get_message(&id) {
                    None => "nomsg".into(),
                    Some(m) => match m.get_attribute(&name) {
                        None => "none".into(),
                        Some(a) => {
                            if a.id() != name {
                                "attr-with-wrong-name".into()
                            } else {
                                format!("some={}", pat_text(a.value()))
                            }
                        }
                    },
                },
                _ => "bad-op".into(),
            },
            // term / function / message lookups as the resolver performs them (get_entry_term,
            // get_entry_function, get_entry_message), observed through format_pattern of a reference
            ["term", id] => match hex_str(id).and_then(|id| probe(&bundle, &format!("-{}", id))) {
                Some((s, errs)) => {
                    if errs.is_empty() {
                        format!("some={}", hex_enc(s.as_bytes()))
                    } else if matches!(errs.as_slice(),
                        [FluentError::ResolverError(ResolverError::Reference(ReferenceKind::Term { .. }))]) {
                        "none".into()
                    } else {
                        format!("unexpected:{:?}", errs)
                    }
                }
                None => "bad-probe".into(),
            },
            ["call", id] => match hex_str(id).and_then(|id| probe(&bundle, &format!("{}()", id))) {
                Some((s, errs)) => {
                    if errs.is_empty() {
                        match s.strip_prefix('F') {
                            Some(t) => format!("some={}", t),
                            // the built-in NUMBER called without arguments answers with its error fallback
                            None if (s == "{NUMBER()}" || s == "NUMBER()") && builtin_tag.is_some() => format!("some={}", builtin_tag.unwrap()),
                            None => format!("unexpected-result:{}", s),
                        }
                    } else if matches!(errs.as_slice(),
                        [FluentError::ResolverError(ResolverError::Reference(ReferenceKind::Function { .. }))]) {
                        "none".into()
                    } else {
                        format!("unexpected:{:?}", errs)
                    }
                }
                None => "bad-probe".into(),
            },
            ["ref", id] => match hex_str(id).and_then(|id| probe(&bundle, &id)) {
                Some((s, errs)) => {
                    if errs.is_empty() {
                        format!("some={}", hex_enc(s.as_bytes()))
                    } else if matches!(errs.as_slice(), [FluentError::ResolverError(ResolverError::NoValue(_))]) {
                        "noval".into()
                    } else if matches!(errs.as_slice(),
                        [FluentError::ResolverError(ResolverError::Reference(ReferenceKind::Message { .. }))]) {
                        "none".into()
                    } else {
                        format!("unexpected:{:?}", errs)
                    }
                }
                None => "bad-probe".into(),
            },
            _ => "bad-op".into(),
        };
        outs.push(o);
    }
    outs.join(";")
}

fn main() {
    fvh::run_main(run);
}
