//! Shared by `fvh_fb` (C16) and `fvh_loc` (C18) via `#[path]`: canonical printing of
//! `LocalizationError`s and request results, and the FTL text of the message states of the case lines.
#![allow(dead_code)]
use fluent_bundle::resolver::errors::{ReferenceKind, ResolverError};
use fluent_bundle::{FluentArgs, FluentBundle, FluentError, FluentResource};
use fluent_fallback::generator::FluentBundleResult;
use fluent_fallback::types::{L10nKey, L10nMessage};
use fluent_fallback::LocalizationError;
use fvh::util::hex_enc;
use std::borrow::Cow;
use unic_langid::LanguageIdentifier;

pub fn canon_fluent_error(e: &FluentError) -> String {
    match e {
        FluentError::Overriding { kind, id } => format!("Overriding.{}.{}", kind, id),
        FluentError::ParserError(_) => "Parser".to_string(),
        FluentError::ResolverError(r) => match r {
            ResolverError::Reference(k) => match k {
                ReferenceKind::Variable { id } => format!("Var.{}", id),
                ReferenceKind::Function { id } => format!("Fn.{}", id),
                ReferenceKind::Message { id, attribute } => match attribute {
                    Some(a) => format!("Msg.{}.{}", id, a),
                    None => format!("Msg.{}", id),
                },
                ReferenceKind::Term { id, attribute } => match attribute {
                    Some(a) => format!("Term.{}.{}", id, a),
                    None => format!("Term.{}", id),
                },
            },
            ResolverError::NoValue(s) => format!("NoValue.{}", s),
            ResolverError::MissingDefault => "MissingDefault".to_string(),
            ResolverError::Cyclic => "Cyclic".to_string(),
            ResolverError::TooManyPlaceables => "TooManyPlaceables".to_string(),
        },
    }
}

fn show_loc(l: &Option<LanguageIdentifier>) -> String {
    match l {
        Some(l) => l.to_string(),
        None => "-".to_string(),
    }
}

pub fn canon_loc_err(e: &LocalizationError) -> String {
    match e {
        LocalizationError::Bundle { error } => format!("B({})", canon_fluent_error(error)),
        LocalizationError::Resolver { id, locale, errors } => format!(
            "R({}@{}:{})",
            id,
            locale,
            errors
                .iter()
                .map(canon_fluent_error)
                .collect::<Vec<_>>()
                .join("+")
        ),
        LocalizationError::MissingMessage { id, locale } => {
            format!("MM({}@{})", id, show_loc(locale))
        }
        LocalizationError::MissingValue { id, locale } => {
            format!("MV({}@{})", id, show_loc(locale))
        }
        LocalizationError::SyncRequestInAsyncMode => "Sync".to_string(),
    }
}

pub fn show_errs(es: &[LocalizationError]) -> String {
    format!(
        "[{}]",
        es.iter().map(canon_loc_err).collect::<Vec<_>>().join(",")
    )
}

pub fn show_val(v: &Option<Cow<str>>) -> String {
    match v {
        Some(t) => format!("some={}", hex_enc(t.as_bytes())),
        None => "none".to_string(),
    }
}

pub fn show_vals(vs: &[Option<Cow<str>>]) -> String {
    format!("[{}]", vs.iter().map(show_val).collect::<Vec<_>>().join(","))
}

pub fn show_msg(m: &Option<L10nMessage>) -> String {
    match m {
        None => "none".to_string(),
        Some(m) => {
            let mut parts = vec![match &m.value {
                Some(v) => hex_enc(v.as_bytes()),
                None => "~".to_string(),
            }];
            for a in &m.attributes {
                parts.push(format!("{}={}", a.name, hex_enc(a.value.as_bytes())));
            }
            format!("msg({})", parts.join("/"))
        }
    }
}

pub fn show_msgs(ms: &[Option<L10nMessage>]) -> String {
    format!("[{}]", ms.iter().map(show_msg).collect::<Vec<_>>().join(","))
}

/// key token: `<id>` | `<id>+` (args x = "ARG") | `<id>~` (empty args)
pub struct KeyTok {
    pub id: String,
    pub args: u8,
}

pub fn parse_key(s: &str) -> Option<KeyTok> {
    if s.is_empty() {
        return None;
    }
    Some(if let Some(r) = s.strip_suffix('+') {
        KeyTok { id: r.to_string(), args: 1 }
    } else if let Some(r) = s.strip_suffix('~') {
        KeyTok { id: r.to_string(), args: 2 }
    } else {
        KeyTok { id: s.to_string(), args: 0 }
    })
}

pub fn parse_keys(s: &str) -> Option<Vec<KeyTok>> {
    if s == "-" {
        return Some(vec![]);
    }
    s.split(',').map(parse_key).collect()
}

pub fn key_args(k: &KeyTok) -> Option<FluentArgs<'static>> {
    match k.args {
        1 => {
            let mut a = FluentArgs::new();
            a.set("x", "ARG");
            Some(a)
        }
        2 => Some(FluentArgs::new()),
        _ => None,
    }
}

pub fn l10n_keys(ks: &[KeyTok]) -> Vec<L10nKey<'_>> {
    ks.iter()
        .map(|k| L10nKey {
            id: Cow::Borrowed(k.id.as_str()),
            args: key_args(k),
        })
        .collect()
}

/// FTL source of one message in state `st` (see FluentModel/Drv/FbDrv.lean `mkMsg`)
pub fn entry_ftl(st: char, loc: &str, id: &str) -> Option<String> {
    let sfx = format!("{} {}", loc, id);
    Some(match st {
        'm' => String::new(),
        'p' => format!("{} = P {}\n", id, sfx),
        'a' => format!("{} = A {}\n    .t = AT {}\n", id, sfx, sfx),
        'n' => format!("{} =\n    .t = NT {}\n", id, sfx),
        'x' => format!("{} = X {} {{ $x }}\n", id, sfx),
        'e' => format!("{} = E {} {{ -nope }}\n", id, sfx),
        'z' => format!(
            "{} = Z {} {{ $x }}\n    .t = ZT {{ $x }}\n    .u = ZU {{ -nope }}\n",
            id, sfx
        ),
        'y' => format!("{} =\n    .t = YT {} {{ $x }}\n", id, sfx),
        // an attribute name REPEATED (legal FTL): a batch of messages hands over every attribute, in source order
        'r' => format!(
            "{} = R {}\n    .t = RT {}\n    .u = RU {{ $x }}\n    .t = RV {{ -nope }}\n",
            id, sfx, sfx
        ),
        _ => return None,
    })
}

/// `id=st,id=st,…` (or `-`)
pub fn parse_entries(s: &str) -> Option<Vec<(String, char)>> {
    if s == "-" || s.is_empty() {
        return Some(vec![]);
    }
    s.split(',')
        .map(|kv| {
            let (id, st) = kv.split_once('=')?;
            let mut cs = st.chars();
            let c = cs.next()?;
            if cs.next().is_some() {
                return None;
            }
            entry_ftl(c, "", id)?;
            Some((id.to_string(), c))
        })
        .collect()
}

/// what a bundle generator hands out: parse errors first, then `add_resource` errors
pub fn build_bundle(
    locale: Vec<LanguageIdentifier>,
    loc_txt: &str,
    brk: u8,
    entries: &[(String, char)],
) -> FluentBundleResult<FluentResource> {
    let mut src = String::new();
    if brk == 2 || brk == 3 {
        src.push_str("?!\n");
    }
    for (id, st) in entries {
        src.push_str(&entry_ftl(*st, loc_txt, id).unwrap());
    }
    if brk == 1 || brk == 3 {
        src.push_str(&format!("dup = P {} dup\ndup = Q {} dup\n", loc_txt, loc_txt));
    }
    let mut bundle = FluentBundle::new(locale);
    bundle.set_use_isolating(false);
    let mut errors: Vec<FluentError> = vec![];
    let res = match FluentResource::try_new(src) {
        Ok(res) => res,
        Err((res, err)) => {
            errors.extend(err.into_iter().map(Into::into));
            res
        }
    };
    if let Err(err) = bundle.add_resource(res) {
        errors.extend(err);
    }
    if brk == 4 || !errors.is_empty() {
        Err((bundle, errors))
    } else {
        Ok(bundle)
    }
}
