//! Shared parts of the harness binaries.  Each area has its own binary `fvh_<area>`
//! (`src/bin/fvh_<area>.rs`) which runs the real fluent-rs crates (path dependencies on /repo) on
//! case lines read from stdin and prints one canonical observation line per case.
use std::io::{BufRead, Write};
use std::panic;

pub mod sexp;
pub mod util;

pub fn run_main(run: fn(&str) -> String) {
    // panics are reported in the observation line, not on stderr
    panic::set_hook(Box::new(|_| {}));
    let stdin = std::io::stdin();
    let stdout = std::io::stdout();
    let mut out = stdout.lock();
    for line in stdin.lock().lines() {
        let line = match line {
            Ok(l) => l,
            Err(_) => break,
        };
        let payload = match line.find(' ') {
            Some(i) => &line[i + 1..],
            None => "",
        };
        let res = panic::catch_unwind(|| run(payload));
        let obs = match res {
            Ok(s) => s,
            Err(e) => {
                let msg = if let Some(s) = e.downcast_ref::<&str>() {
                    s.to_string()
                } else if let Some(s) = e.downcast_ref::<String>() {
                    s.clone()
                } else {
                    "?".to_string()
                };
                format!("PANIC {}", msg.replace('\n', " "))
            }
        };
        // one line per case, flushed, so that an abort identifies the culprit case
        let _ = writeln!(out, "{}", obs);
        let _ = out.flush();
    }
}
