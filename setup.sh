#!/bin/sh
# Build the framework from files on disk only (offline): Lean models + proofs + driver, Rust harness.
set -e
cd "$(dirname "$0")"
export CARGO_NET_OFFLINE=true
python3 tools/extract_consts.py
(cd lean && lake build)
cp /repo/Cargo.lock harness/Cargo.lock 2>/dev/null || true
(cd harness && cargo build --offline)
echo "setup ok"
