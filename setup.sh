#!/bin/sh
# Build the framework from files on disk only (offline): Lean models + proofs + drivers, Rust harness.
# Only what the claimed properties need is built, so work in progress on others cannot break setup.
set -e
cd "$(dirname "$0")"
export CARGO_NET_OFFLINE=true
python3 tools/extract_consts.py
(cd lean && lake build $(python3 ../tools/setup_targets.py lake))
(cd harness && cargo build --offline $(python3 ../tools/setup_targets.py cargo))
echo "setup ok"
